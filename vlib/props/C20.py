"""C20 — duplicate aliases are always rejected; declared aliases stay callable."""
import itertools

from .. import corr, leanproj
from ..common import Rng, seed, error_codes

TYPES_PLAIN = "1:0:1,2:0:2,3:0:3,4:1:1,5:1:2"                 # printed names separate the types
TYPES_ALIKE = "1:0:5,2:0:5,3:0:5,4:0:5,5:1:5,6:1:5,7:0:6"     # distinct identities that print alike

# type aliases (kind 2) and lists over other entries (kind 3): 4 = alias of 1 printed "N009", 5 = alias of 3 printed "N000",
# 6 = alias of the alias 4, 7 = list of 2, 8 = alias of 2, 9 = list of the alias 8 (the same type as 7), 10 = alias of the list 7
TYPES_ALIAS = "1:0:1,2:0:2,3:0:3,4:2:9:1,5:2:0:3,6:2:5:4,7:3:0:2,8:2:7:2,9:3:0:8,10:2:0:7"

CMP_BASE = ["Lid.1", "Lid.2", "Lsym.1", "Lsym.2", "Lint.1", "Lint.2", "Lfloat.1", "Lstr.1", "Lstr.2", "Lchr.1",
            "O10", "O30", "O31", "O157", "O4"]
CMP_KEYS = {TYPES_PLAIN: CMP_BASE + ["P0.1", "P0.2", "P0.3", "P1.1", "P1.2", "P0.4", "P0.5", "P1.5"],
            TYPES_ALIKE: CMP_BASE + ["P0.1", "P0.2", "P0.3", "P1.1", "P1.2", "P0.5", "P0.6", "P1.5", "P0.7", "P1.7"],
            TYPES_ALIAS: CMP_BASE + ["P0.%d" % i for i in range(1, 11)] + ["P1.%d" % i for i in range(1, 11)]}


class TypeTable:
    """the type table of a request as the specification reads it: `under` is ddptypes.GetUnderlying on identities"""
    def __init__(self, spec):
        self.e = {}
        self.order = []
        for x in spec.split(","):
            f = x.split(":")
            self.e[f[0]] = (f[1], f[2], f[3] if len(f) > 3 else None)
            self.order.append(f[0])

    def under(self, i):
        kind, _, target = self.e[i]
        if kind == "2":
            return self.under(target)
        if kind == "3":
            u = self.under(target)
            for j in self.order:
                if self.e[j][0] == "3" and self.under(self.e[j][2]) == u:
                    return j
        return i

    def is_list(self, i):
        return self.e[self.under(i)][0] in ("1", "3")

    def name(self, i):
        u = self.under(i)
        kind, n, target = self.e[u]
        return self.name(target) if kind == "3" else n

    def canon_key(self, k):
        if k[0] == "P":
            r, i = k[1:].split(".")
            return "P%s.%s" % (r, self.under(i))
        return k

    def canon(self, p):
        return tuple(self.canon_key(k) for k in p)


def lookalike(types, patterns):
    """True iff two patterns differ only in placeholder types that print alike
    (same Referenz flag, list-ness and name, different identity) — the known finding."""
    t = TypeTable(types)
    def canon(p):
        out = []
        for k in p:
            if k[0] == "P":
                r, i = k[1:].split(".")
                out.append("P%s.%s.%s" % (r, t.is_list(i), t.name(i)))
            else:
                out.append(k)
        return tuple(out)
    seen = {}
    for p in patterns:
        c = canon(p)
        p = t.canon(p)
        # patterns sharing a prefix position with look-alike params also collide inside one node
        for d in range(1, len(p) + 1):
            key = c[:d]
            prev = seen.setdefault(key, set())
            prev.add(tuple(p[:d]))
            if len(prev) > 1:
                return True
    return False


def gen_trie_cases(tier, rng):
    cases = []   # (types, patterns(list of key lists))
    head = ["Lid.7", "Lid.8", "O20"]
    npat = 4 if tier == "quick" else 5
    vocabs = [(TYPES_PLAIN, ["P0.1", "P0.2", "P0.3", "P1.1", "P0.4", "P0.5", "Lid.9"]),
              (TYPES_ALIKE, ["P0.1", "P0.2", "P0.3", "P0.4", "P0.5", "P0.6", "P0.7", "P1.1"]),
              (TYPES_ALIAS, ["P0.1", "P0.2", "P0.3", "P0.4", "P0.5", "P0.6", "P0.7", "P0.9", "P0.10"])]
    for types, params in vocabs:
        # every set of npat patterns "head param" with the same head, every permutation
        for combo in itertools.combinations(params, npat):
            pats = [["Lid.7", p] for p in combo]
            for perm in itertools.permutations(pats):
                cases.append((types, list(perm)))
    exhaustive = len(cases)
    n = 600 if tier == "quick" else 20000
    for _ in range(n):
        types, params = rng.choice(vocabs)
        k = 2 + rng.below(6)
        pats = []
        for _ in range(k):
            ln = 1 + rng.below(3)
            pats.append([rng.choice(head + params) for _ in range(ln)])
        cases.append((types, pats))
    return cases, exhaustive


def trie_request(types, pats):
    ops = []
    for i, p in enumerate(pats):
        ops.append("I%s=%d" % (",".join(p), i + 1))
    for p in pats:
        ops.append("C" + ",".join(p))
    for p in pats:
        ops.append("S" + ",".join(p))
    # the same questions to a copy of the store (alias_trie.Copy: the aliases a generic function sees when it is instantiated)
    ops.append("Y")
    for p in pats:
        ops.append("C" + ",".join(p))
    for p in pats:
        ops.append("S" + ",".join(p))
    return "trie %s %s" % (types, ";".join(ops))


def keys_eq_spec(types, a, b):
    """pointwise tokenEqual by the *specification*: same token, placeholders equal iff same
    Referenz flag and same type identity"""
    return a == b


def module_src(i, tname):
    return ('''Binde "Duden/Ausgabe" ein.
Wir nennen die öffentliche Kombination aus
	der öffentlichen Zahl x mit Standardwert %d,
einen %s, und erstellen sie so:
	"der P%d"

Die öffentliche Funktion zeige%d mit dem Parameter p vom Typ %s, gibt nichts zurück, macht:
	Schreibe %d auf eine Zeile.
Und kann so benutzt werden:
	"zeige <p>"

Der öffentliche %s pkt%d ist der P%d.
''') % (i, tname, i, i, tname, i, tname, i, i)


def program_level(res, harness, tier, rng):
    """aliases that arrive through imports, in permuted import orders; parameter types are
    same-named Kombinationen of different modules (look-alike) or differently named ones"""
    reqs = []
    meta = []
    for n in (1, 2, 3, 4):
        orders = list(itertools.permutations(range(1, n + 1)))
        if tier == "quick":
            orders = orders[:6]
        for alike in (False, True):
            for order in orders:
                files = {}
                for i in range(1, n + 1):
                    files["m%d.ddp" % i] = module_src(i, "Punkt" if alike else "Punkt%s" % "abcd"[i - 1])
                main = 'Binde "Duden/Ausgabe" ein.\n'
                for i in order:
                    main += 'Binde zeige%d und pkt%d aus "m%d" ein.\n' % (i, i, i)
                for i in range(1, n + 1):
                    main += "zeige pkt%d.\n" % i
                files["main.ddp"] = main
                reqs.append({"files": files, "main": "main.ddp"})
                meta.append(("callable", n, alike, order))
                # duplicate: main re-declares the alias for the type of module 1
                dup = dict(files)
                tn = "Punkt" if alike else "Punkt%s" % "abcd"[order[-1] - 1]
                dup["main.ddp"] = ('Binde "Duden/Ausgabe" ein.\n' + "".join(
                    'Binde zeige%d und pkt%d aus "m%d" ein.\n' % (i, i, i) for i in order) +
                    'Binde %s aus "m%d" ein.\n' % (tn, order[-1]) +
                    "Die Funktion nochmal mit dem Parameter p vom Typ %s, gibt nichts zurück, macht:\n\tSchreibe 0 auf eine Zeile.\n"
                    "Und kann so benutzt werden:\n\t\"zeige <p>\"\n" % tn)
                reqs.append({"files": dup, "main": "main.ddp"})
                meta.append(("duplicate", n, alike, order))
    # type aliases: a pattern over `Absatz = Text` is the pattern over Text, whatever its siblings and its printed name
    PRIMS = [("Zahl", "1"), ("Kommazahl", "1,5"), ("Buchstabe", "'a'"), ("Wahrheitswert", "wahr"), ("Text", '"t"')]
    def fn(name, typ, out):
        return ("Die Funktion %s mit dem Parameter x vom Typ %s, gibt nichts zurück, macht:\n\tSchreibe \"%s\" auf eine Zeile.\n"
                "Und kann so benutzt werden:\n\t\"Zeige <x>\"\n\n" % (name, typ, out))
    combos = []
    for k in (1, 2, 3, 4):
        combos += list(itertools.combinations([t for t in PRIMS if t[0] != "Text"], k))
    for aname, article in (("Absatz", "einen"), ("Mitteltext", "einen"), ("Zeile", "eine")):
        for sib in combos:
            for first in ("Text", aname):
                second = aname if first == "Text" else "Text"
                head = 'Binde "Duden/Ausgabe" ein.\nWir nennen einen Text auch %s %s.\n\n' % (article, aname)
                decls = "".join(fn("zeige_%s" % t.lower(), t, t) for t, _ in sib) + fn("zeige_erst", first, "erst")
                calls = "".join("Zeige %s.\n" % lit for _, lit in sib) + 'Zeige "t".\nDer %s abs_var ist "u".\nZeige abs_var.\n' % (
                    aname if article == "einen" else "Text")
                reqs.append({"files": {"main.ddp": head + decls + calls}, "main": "main.ddp"})
                meta.append(("callable", len(sib) + 1, False, ("type-alias", aname, first) + tuple(t for t, _ in sib)))
                reqs.append({"files": {"main.ddp": head + decls + fn("zeige_zweit", second, "zweit") + calls}, "main": "main.ddp"})
                meta.append(("duplicate", len(sib) + 1, False, ("type-alias", aname, first) + tuple(t for t, _ in sib)))
    # the owner of an alias may be a function or a Kombination (its constructor): a duplicate is a duplicate whoever owns the first one
    def owner(kind, name, pattern):
        if kind == "func":
            return ('Die Funktion %s mit den Parametern x und y vom Typ Zahl und Zahl, gibt eine Zahl zurück, macht:\n\tGib x plus y zurück.\nUnd kann so benutzt werden:\n\t"%s"\n\n' % (name, pattern))
        return ('Wir nennen die öffentliche Kombination aus\n\tder öffentlichen Zahl x mit Standardwert 0,\n\tder öffentlichen Zahl y mit Standardwert 0,\neinen %s, und erstellen sie so:\n\t"%s"\n\n' % (name.capitalize(), pattern))
    pattern = "ein Ding bei <x> und <y>"
    for k1 in ("func", "struct"):
        for k2 in ("func", "struct"):
            o1, o2 = owner(k1, "erstes", pattern), owner(k2, "zweites", pattern)
            if k1 == "func":
                o1 = o1.replace("Die Funktion", "Die öffentliche Funktion")
            head = 'Binde "Duden/Ausgabe" ein.\n'
            # both in one file
            reqs.append({"files": {"main.ddp": head + o1 + o2}, "main": "main.ddp"})
            meta.append(("duplicate", 2, False, ("owners", k1, k2, "local")))
            # the first one imported
            reqs.append({"files": {"m1.ddp": head + o1, "main.ddp": head + 'Binde "m1" ein.\n' + o2}, "main": "main.ddp"})
            meta.append(("duplicate", 2, False, ("owners", k1, k2, "first-imported")))
            # both imported
            o2p = o2.replace("Die Funktion", "Die öffentliche Funktion")
            reqs.append({"files": {"m1.ddp": head + o1, "m2.ddp": head + o2p, "main.ddp": head + 'Binde "m1" ein.\nBinde "m2" ein.\n'}, "main": "main.ddp"})
            meta.append(("duplicate", 2, False, ("owners", k1, k2, "both-imported")))
        # alone it is callable, also with other aliases of both kinds around it
        use = ("Die Zahl r ist ein Ding bei 1 und 2.\nSchreibe r.\n" if k1 == "func" else "Der Erstes r ist ein Ding bei 1 und 2.\nSchreibe (x von r).\n")
        others = owner("func", "drittes", "ein Ding mit <x> und <y>") + owner("struct", "viertes", "ein Ding bei <x>, <y>")
        reqs.append({"files": {"main.ddp": 'Binde "Duden/Ausgabe" ein.\n' + others + owner(k1, "erstes", pattern) + use}, "main": "main.ddp"})
        meta.append(("callable", 3, False, ("owners", k1, "with-siblings")))
    # aliases a generic function's body uses are those of the *declaring* module as it is when the function is instantiated:
    # a helper declared before or after the generic function, public or private, generic or not, stays callable from the body
    # when the function is instantiated by another module that does not see the helper itself
    helpers = {
        "generic": ('Die %sgenerische Funktion Hole_Element mit den Parametern i und l vom Typ Zahl und T Liste, gibt ein T zurück, macht:\n'
                    '\tGib l an der Stelle i zurück.\nUnd kann so benutzt werden:\n\t"hole <i> aus <l>"\n\n', "Gib (hole 1 aus l) zurück."),
        "plain": ('Die %sFunktion Pos mit dem Parameter i vom Typ Zahl, gibt eine Zahl zurück, macht:\n'
                  '\tGib i zurück.\nUnd kann so benutzt werden:\n\t"die Position <i>"\n\n', "Gib l an der Stelle (die Position 1) zurück."),
    }
    # a helper whose pattern extends / is a prefix of a pattern the instantiating module already holds (through the import)
    DOP = ('Die %sFunktion Doppel mit dem Parameter x vom Typ Zahl, gibt eine Zahl zurück, macht:\n\tGib x mal 2 zurück.\nUnd kann so benutzt werden:\n\t"das Doppelte von <x>"\n\n')
    DPL = ('Die %sFunktion DoppelPlus mit den Parametern x und y vom Typ Zahl und Zahl, gibt eine Zahl zurück, macht:\n\tGib x mal 2 plus y zurück.\n'
           'Und kann so benutzt werden:\n\t"das Doppelte von <x> erhöht um <y>"\n\n')
    helpers["extends-imported"] = ((DOP % "öffentliche ") + DPL, "Gib l an der Stelle (das Doppelte von 1 erhöht um 0) zurück.")
    helpers["prefix-of-imported"] = ((DPL % "öffentliche ").replace("%", "%%") + DOP, "Gib l an der Stelle (das Doppelte von 1) zurück.")
    for hk, (hsrc, body) in helpers.items():
        for vis in ("", "öffentliche "):
            for where in ("before", "after"):
                for imp in ("whole", "by-name"):
                    for local_user in (False, True):
                        g = ('Die öffentliche generische Funktion Erstes_Element mit dem Parameter l vom Typ T Liste, gibt ein T zurück, macht:\n'
                             '\t%s\nUnd kann so benutzt werden:\n\t"das erste aus <l>"\n\n' % body)
                        h = hsrc % vis
                        mod = (h + g) if where == "before" else (g + h)
                        if local_user:   # the declaring module instantiates it as well, below both
                            mod += ('Die öffentliche Funktion Erstes_Lokal mit dem Parameter l vom Typ Zahlen Liste, gibt eine Zahl zurück, macht:\n'
                                    '\tGib (das erste aus l) zurück.\nUnd kann so benutzt werden:\n\t"das lokale erste aus <l>"\n\n')
                        main = 'Binde "Duden/Ausgabe" ein.\n' + ('Binde "Werkzeug" ein.\n' if imp == "whole" else 'Binde Erstes_Element aus "Werkzeug" ein.\n')
                        main += ('Die Zahlen Liste zahlen ist eine Liste, die aus 7, 8, 9 besteht.\nDie Text Liste worte ist eine Liste, die aus "a", "b" besteht.\n'
                                 'Schreibe die Zahl (das erste aus zahlen) auf eine Zeile.\nSchreibe den Text (das erste aus worte) auf eine Zeile.\n')
                        reqs.append({"files": {"Werkzeug.ddp": mod, "main.ddp": main}, "main": "main.ddp"})
                        meta.append(("callable", 2, False, ("generic-body-alias", hk, vis.strip() or "private", where, imp, local_user)))
    outs = corr.parse_many(harness, reqs)
    ALIAS_DUP = (error_codes()["SEM_ALIAS_ALREADY_DEFINED"], error_codes()["SEM_ALIAS_ALREADY_TAKEN"])
    res.evaluations += len(reqs)
    for r, m, o in zip(reqs, meta, outs):
        kind, n, alike, order = m
        res.nontrivial("prog:%s" % (m,))
        bad = None
        if o["result"] != "ok":
            bad = "the front end crashes (%s) on a program whose aliases arrive through imports" % o["result"]
        elif kind == "callable" and (o["faulty"] or any(d["level"] == 2 for d in o["diags"])):
            bad = "a declared alias is not callable: " + "; ".join(d["msg"] for d in o["diags"])[:300]
        elif kind == "duplicate" and not any(d["code"] in ALIAS_DUP for d in o["diags"]):
            bad = "re-declaring the alias pattern with the same parameter type is not rejected (diagnostics: %s)" % [d["code"] for d in o["diags"]]
        if bad:
            fp = "lookalike-placeholder-types" if (alike and n >= 2) else "program:%s" % (m,)
            res.violation(fp, bad, {"files": r["files"], "main": "main.ddp", "implementation": o,
                                    "note": "replay: write the files, run kddp kompiliere main.ddp"})
    res.extra["programs"] = len(reqs)




def check(res, tier):
    rng = Rng(seed())
    broken = leanproj.prove(res, "Props.C20", "Props/C20.lean")
    harness = corr.build_harness()
    model = corr.build_model()
    # (1) the two predicates, all ordered pairs, both type tables
    lines = []
    for types in (TYPES_PLAIN, TYPES_ALIKE, TYPES_ALIAS):
        for a in CMP_KEYS[types]:
            for b in CMP_KEYS[types]:
                lines.append("tokcmp %s %s %s" % (types, a, b))
    ncmp = len(lines)
    cases, exhaustive = gen_trie_cases(tier, rng)
    lines += [trie_request(t, p) for t, p in cases]
    a = corr.run_lines(harness, lines)
    b = corr.run_lines(model, lines)
    res.evaluations = len(lines)
    mism = 0
    for i, (x, y) in enumerate(zip(a, b)):
        if x != y:
            mism += 1
            if mism <= 5:
                res.violation("corr:" + lines[i][:300], "model and implementation disagree",
                              {"request": lines[i], "implementation": x, "model": y,
                               "correspondence": "harness tokcmp/trie vs ddpmodel (DDP.TokenKey, DDP.OMap, DDP.Trie)"}, has_input=False)
        if i >= ncmp:
            types, pats = cases[i - ncmp]
            res.nontrivial(lines[i])
            # property monitor on the implementation: every inserted pattern is found with the
            # value of the latest insertion of that very pattern, and searching it neither
            # crashes nor misses it
            ans = x.split(";")
            n = len(pats)
            latest = {}
            tt = TypeTable(types)
            for j, p in enumerate(pats):
                latest[tt.canon(p)] = j + 1      # a pattern over an alias of a type is the pattern over that type
            bad = None
            for j, p in enumerate(pats):
                c = ans[n + j] if n + j < len(ans) else "<missing>"
                s = ans[2 * n + j] if 2 * n + j < len(ans) else "<missing>"
                want = latest[tt.canon(p)]
                if c != "some %d" % want:
                    bad = "pattern %s was inserted (alias %d) but Contains answers '%s'" % (",".join(p), want, c)
                    break
                if s == "nilderef" or s.startswith("panic"):
                    bad = "searching the declared pattern %s dereferences a nil child (crash)" % ",".join(p)
                    break
                if not s.startswith("vals") or str(want) not in s[5:].split(","):
                    bad = "searching the declared pattern %s does not return its alias: '%s'" % (",".join(p), s)
                    break
            if not bad and len(ans) >= 5 * n + 1 and ans[n:3 * n] != ans[3 * n + 1:5 * n + 1]:
                bad = "a copy of the alias store answers differently from the store it was copied from: %s vs %s" % (ans[3 * n + 1:5 * n + 1], ans[n:3 * n])
            if bad:
                if lookalike(types, pats):
                    fp = "lookalike-placeholder-types"
                else:
                    fp = "trie:" + lines[i][:300]
                res.violation(fp, bad, {"types": types, "operations": lines[i], "implementation": x, "model": y,
                                        "note": "replay: echo '<operations>' | .cache/bin/harness"})
    res.extra["tokcmp_pairs"] = ncmp
    res.extra["trie_cases_exhaustive"] = exhaustive
    res.extra["disagreements"] = mism
    res.exhaustive = True
    res.rule = ("tokcmp: all ordered pairs of %d-%d keys under three type tables (plain, look-alike types, type aliases and lists over aliases); trie: every permutation of "
                "every %d-subset of placeholder patterns under one head token (exhaustive) + random pattern sets; each case inserts all, "
                "then Contains and Search each. distinct by request line") % (len(CMP_BASE) + 8, len(CMP_BASE) + 20, 4 if tier == "quick" else 5)
    for i in (3, ncmp + 5, len(lines) - 1):
        res.sample({"request": lines[i], "implementation": a[i], "model": b[i]})
    program_level(res, harness, tier, rng)
    for bk in broken:
        res.violation("obligation:" + bk["name"], "proof obligation no longer checks: %s" % bk["name"],
                      {"theorem": bk["name"], "detail": bk["detail"], "kind": "broken-obligation"}, has_input=False)

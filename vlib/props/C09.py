"""C09 — calls resolve to the longest type-matching alias; arguments bind by name.

Theorems: lean/Props/C09.lean (model of sortAliases + first-fitting selection).  Ties: (1) the real
sortAliases (hook VerifSortAliases) against the model's order on random candidate lists; (2)
generated programs: families of functions with overlapping alias patterns (prefixes, same pattern
with other parameter types, generic and Referenz variants, placeholders in another order than the
parameters) and calls; every function prints its identity and its parameters by name; the expected
callee is computed with the model (`resolve`); (3) fixed programs for negated aliases and operator
overloads."""
from collections import Counter

from .. import leanproj, pipeline, corr
from ..common import Rng, seed
from ..corr import build_model

HEAD = ('Binde "Duden/Ausgabe" ein.\nWir nennen eine Zahl auch eine Ganzzahl.\nWir nennen einen Text auch einen Absatz.\n'
        'Wir nennen eine Kommazahl auch eine Fliesszahl.\n')
# a parameter may be declared with an alias of its type: the alias is the type (arguments of the type — literals, variables,
# computed values — fit it exactly as they fit the type itself)
ALIAS_NAME = {"Z": "Ganzzahl", "T": "Absatz", "K": "Fliesszahl"}
TYPES = {"Z": ("Zahl", "Zahlen Referenz"), "T": ("Text", "Text Referenz"), "K": ("Kommazahl", "Kommazahlen Referenz"), "G": ("T", "T Referenz")}
WORDS = ["laut", "leise", "bitte", "sofort"]
VARS = {"Z": ("zv", "41"), "T": ("tv", "vt"), "K": ("kv", "2.5")}       # variable name, printed value
LITS = {"Z": ("7", "7"), "T": ('"w"', "w"), "K": ("1,5", "1.5")}


class Fn:
    def __init__(self, idx, head, pattern, params):
        self.idx = idx
        self.head = head            # first word of the alias
        self.pattern = pattern      # list of ("w", word) | ("p", param name)
        self.params = params        # list of (name, type letter, isref) in declaration order

    def key_types(self):
        return tuple((t, r) for _, t, r in self.params_in_pattern_order())

    def params_in_pattern_order(self):
        by = {n: (n, t, r) for n, t, r in self.params}
        return [by[x] for k, x in self.pattern if k == "p"]

    def shape(self):
        return tuple(x if k == "w" else "<>" for k, x in self.pattern)

    def length(self):
        return 1 + len(self.pattern)

    def source(self):
        generic = any(t == "G" for _, t, _ in self.params)
        names = [n for n, _, _ in self.params]
        tys = [ALIAS_NAME[t] if (not r and t in ALIAS_NAME and (self.idx + i) % 3 == 1) else TYPES[t][1 if r else 0] for i, (_, t, r) in enumerate(self.params)]
        s = "Die %sFunktion fn%d" % ("generische " if generic else "", self.idx)
        if len(names) == 1:
            s += " mit dem Parameter %s vom Typ %s," % (names[0], tys[0])
        else:
            s += " mit den Parametern %s und %s vom Typ %s und %s," % (", ".join(names[:-1]), names[-1], ", ".join(tys[:-1]), tys[-1])
        s += " gibt nichts zurück, macht:\n\tSchreibe \"fn%d\".\n" % self.idx
        for n, _, _ in self.params:
            s += "\tSchreibe \" %s=\".\n\tSchreibe %s.\n" % (n, n)
        s += "\tSchreibe \"\" auf eine Zeile.\nUnd kann so benutzt werden:\n\t\"%s\"\n\n" % " ".join(
            [self.head] + [x if k == "w" else "<%s>" % x for k, x in self.pattern])
        return s


def gen_family(rng, head, start_idx):
    """functions sharing the first alias word, with overlapping patterns"""
    fns = []
    seen = set()
    shapes = []
    for _ in range(2 + rng.below(3)):
        nparams = 1 + rng.below(2)
        pat = []
        names = ["a", "b"][:nparams]
        order = rng.shuffle(names)
        for i, n in enumerate(order):
            pat.append(("p", n))
            if rng.below(100) < 50:
                pat.append(("w", WORDS[rng.below(len(WORDS))]))
        shapes.append(pat)
    for _ in range(5 + rng.below(5)):
        pat = shapes[rng.below(len(shapes))]
        names = sorted(x for k, x in pat if k == "p")
        params = []
        for n in names:
            t = "ZTKG"[rng.below(4)] if rng.below(100) < 85 else "Z"
            params.append((n, t, rng.below(100) < 25))
        if sum(1 for _, t, _ in params if t == "G") > 1:
            continue
        f = Fn(start_idx + len(fns), head, list(pat), params)
        sig = (f.shape(), tuple((t, r) for _, t, r in f.params_in_pattern_order()))
        # the same pattern with the same types (references or not) is a duplicate alias (C20): not generated
        if (f.shape(), tuple(t for _, t, _ in f.params_in_pattern_order())) in seen:
            continue
        seen.add((f.shape(), tuple(t for _, t, _ in f.params_in_pattern_order())))
        fns.append(f)
    return fns


def gen_call(rng, fns):
    """a call built from one function's pattern; returns (source tokens, [(kind, type, isvar)] per argument) """
    f = fns[rng.below(len(fns))]
    toks, args = [f.head], []
    for k, x in f.pattern:
        if k == "w":
            toks.append(("w", x))
        else:
            t = {n: ty for n, ty, _ in f.params}[x]
            if t == "G" or rng.below(100) < 20:
                t = "ZTK"[rng.below(3)]
            isvar = rng.below(100) < 55
            toks.append(("a", t, isvar))
    return toks


def candidates(call, fns):
    """(function, fits) for every function whose pattern matches a prefix of the call's tokens"""
    out = []
    items = call[1:]
    for f in fns:
        if f.head != call[0] or len(f.pattern) > len(items):
            continue
        ok, fits, bind = True, True, {}
        for (k, x), it in zip(f.pattern, items):
            if k == "w":
                if it[0] != "w" or it[1] != x:
                    ok = False
                    break
            else:
                if it[0] != "a":
                    ok = False
                    break
                _, t, r = {n: (n, ty, rf) for n, ty, rf in f.params}[x]
                at, isvar = it[1], it[2]
                if r and not isvar:
                    fits = False
                if t == "G":
                    if bind.setdefault("G", at) != at:
                        fits = False
                elif t != at:
                    fits = False
        if ok:
            out.append((f, fits))
    return out


def render_call(call):
    out = [call[0]]
    for it in call[1:]:
        if it[0] == "w":
            out.append(it[1])
        else:
            out.append(VARS[it[1]][0] if it[2] else LITS[it[1]][0])
    return " ".join(out) + "."


def expected_line(f, call):
    vals = {}
    items = call[1:]
    for (k, x), it in zip(f.pattern, items):
        if k == "p":
            vals[x] = VARS[it[1]][1] if it[2] else LITS[it[1]][1]
    return "fn%d" % f.idx + "".join(" %s=%s" % (n, vals[n]) for n, _, _ in f.params) + "\n"


FIXED = [
    ("negated-alias",
     HEAD + 'Die Funktion gerade mit dem Parameter x vom Typ Zahl, gibt einen Wahrheitswert zurück, macht:\n\tGib (x modulo 2) gleich 0 ist zurück.\n'
            'Und kann so benutzt werden:\n\t"<x> <!nicht> gerade ist"\n\n'
            'Schreibe (4 gerade ist) auf eine Zeile.\nSchreibe (4 nicht gerade ist) auf eine Zeile.\nSchreibe (3 nicht gerade ist) auf eine Zeile.\n'
            'Wenn 5 nicht gerade ist, Schreibe "ungerade" auf eine Zeile.\n',
     "wahr\nfalsch\nwahr\nungerade\n"),
    ("negated-alias-of-generic-function",
     HEAD + 'Binde "Duden/Listen" ein.\n'
            'Die generische Funktion kommt_vor mit den Parametern l und e vom Typ T Liste und T, gibt einen Wahrheitswert zurück, macht:\n'
            '\tFür jedes T x in l, mache:\n\t\tWenn x gleich e ist, Gib wahr zurück.\n\tGib falsch zurück.\n'
            'Und kann so benutzt werden:\n\t"<e> <!nicht> in <l> vorkommt"\n\n'
            'Die Zahlen Liste zl ist eine Liste, die aus 1, 2, 3 besteht.\nDie Text Liste tl ist eine Liste, die aus "a", "b" besteht.\n'
            'Schreibe (2 in zl vorkommt) auf eine Zeile.\nSchreibe (2 nicht in zl vorkommt) auf eine Zeile.\nSchreibe (9 nicht in zl vorkommt) auf eine Zeile.\n'
            'Schreibe ("z" nicht in tl vorkommt) auf eine Zeile.\nSchreibe (zl 2 enthält) auf eine Zeile.\nSchreibe (zl 2 nicht enthält) auf eine Zeile.\n'
            'Schreibe (zl nicht leer ist) auf eine Zeile.\nWenn tl "q" nicht enthält, Schreibe "fehlt" auf eine Zeile.\n',
     "wahr\nfalsch\nwahr\nwahr\nwahr\nfalsch\nwahr\nfehlt\n"),
    ("negated-alias-with-referenz",
     HEAD + 'Die Funktion ist_gross mit dem Parameter z vom Typ Zahlen Referenz, gibt einen Wahrheitswert zurück, macht:\n\tErhöhe z um 1.\n\tGib z größer als 10 ist zurück.\n'
            'Und kann so benutzt werden:\n\t"<z> <!nicht> gross wird"\n\n'
            'Die Zahl a ist 9.\nSchreibe (a nicht gross wird) auf eine Zeile.\nSchreibe (a nicht gross wird) auf eine Zeile.\nSchreibe (a gross wird) auf eine Zeile.\nSchreibe a auf eine Zeile.\n',
     "wahr\nfalsch\nwahr\n12\n"),
    ("operator-overload-exact-types",
     HEAD + 'Wir nennen die Kombination aus\n\tder Zahl x mit Standardwert 0,\neinen Vek, und erstellen sie so:\n\t"Vek <x>"\n\n'
            'Die Funktion vekplus mit den Parametern a und b vom Typ Vek und Vek, gibt einen Vek zurück, macht:\n\tGib Vek ((x von a) plus (x von b)) zurück.\n'
            'Und überlädt den "plus" Operator.\n\n'
            'Die Funktion vekzahl mit den Parametern a und b vom Typ Vek und Zahl, gibt einen Vek zurück, macht:\n\tGib Vek ((x von a) plus (b mal 100)) zurück.\n'
            'Und überlädt den "plus" Operator.\n\n'
            'Der Vek v ist Vek 1.\nDer Vek w ist Vek 2.\nSchreibe (x von (v plus w)) auf eine Zeile.\nSchreibe (x von (v plus 3)) auf eine Zeile.\nSchreibe (1 plus 2) auf eine Zeile.\n'
            'Schreibe (1,5 plus 2) auf eine Zeile.\n',
     "3\n301\n3\n3.5\n"),
    ("binding-by-name",
     HEAD + 'Die Funktion ziehe mit den Parametern a und b vom Typ Zahl und Zahl, gibt eine Zahl zurück, macht:\n\tGib a minus b zurück.\n'
            'Und kann so benutzt werden:\n\t"ziehe <b> von <a> ab" oder\n\t"<a> weniger <b>"\n\n'
            'Schreibe (ziehe 1 von 10 ab) auf eine Zeile.\nSchreibe (10 weniger 1) auf eine Zeile.\n',
     "9\n9\n"),
]


def overload_programs():
    """user-defined operator overloads are selected by the exact-type rule (type aliases transparent, type definitions
    opaque), the built-in meaning applies otherwise: (label, source, expected stdout)"""
    H = ('Binde "Duden/Ausgabe" ein.\nWir definieren eine Meter als eine Zahl.\nWir definieren eine Elle als eine Zahl.\nWir nennen eine Zahl auch eine Strecke.\n'
         'Wir nennen eine Meter auch eine Distanz.\n')
    V = ('Die Zahl z1 ist 70.\nDie Zahl z2 ist 8.\nDie Strecke s1 ist 70.\nDie Strecke s2 ist 8.\nDie Meter m1 ist 70 als Meter.\nDie Meter m2 ist 8 als Meter.\n'
         'Die Elle e1 ist 70 als Elle.\nDie Elle e2 ist 8 als Elle.\nDie Distanz d1 ist 70 als Meter.\nDie Distanz d2 ist 8 als Meter.\n')
    under = {"Zahl": "Zahl", "Strecke": "Zahl", "Meter": "Meter", "Elle": "Elle", "Distanz": "Meter"}   # GetUnderlying
    var = {"Zahl": "z", "Strecke": "s", "Meter": "m", "Elle": "e", "Distanz": "d"}
    binops = {"plus": ("%s plus %s", 78), "minus": ("%s minus %s", 62), "mal": ("%s mal %s", 560), "modulo": ("%s modulo %s", 6),
              "kleiner als": ("%s kleiner als %s ist", None), "gleich": ("%s gleich %s ist", None), "hoch": ("%s hoch %s", None),
              "logisch und": ("%s logisch und %s", 0), "größer als, oder": ("%s größer als, oder %s ist", None)}
    unops = {"Betrag": ("der Betrag von %s", 70), "unäres minus": ("-%s", -70), "logisch nicht": ("logisch nicht %s", -71)}
    out = []
    k = 0
    for T in ("Meter", "Strecke", "Zahl", "Distanz"):
        for op, (tmpl, builtin) in list(binops.items()) + list(unops.items()):
            k += 1
            sentinel = 1000 + k
            binary = op in binops
            ret_bool = builtin is None and binary
            if binary:
                decl = ('Die Funktion ueberladen mit den Parametern a und b vom Typ %s und %s, gibt %s zurück, macht:\n\tGib %s zurück.\nUnd überlädt den "%s" Operator.\n\n'
                        % (T, T, "einen Text" if ret_bool else "eine Zahl", '"überladen"' if ret_bool else str(sentinel), op))
            else:
                decl = ('Die Funktion ueberladen mit dem Parameter a vom Typ %s, gibt eine Zahl zurück, macht:\n\tGib %d zurück.\nUnd überlädt den "%s" Operator.\n\n' % (T, sentinel, op))
            body, exp = "", ""
            for U in ("Zahl", "Strecke", "Meter", "Elle", "Distanz"):
                e = tmpl % ((var[U] + "1", var[U] + "2") if binary else (var[U] + "1",))
                if under[U] == under[T]:
                    body += "Schreibe (%s) auf eine Zeile.\n" % e
                    exp += "überladen\n" if ret_bool else "%d\n" % sentinel
                elif under[U] == "Zahl":
                    body += "Schreibe (%s) auf eine Zeile.\n" % e
                    exp += ("%s\n" % {"kleiner als": "falsch", "gleich": "falsch", "hoch": "576480100000000", "größer als, oder": "wahr"}[op]) if ret_bool else "%d\n" % builtin
                # a type definition without an overload of its own has no built-in meaning: not used
            out.append(("overload:%s:%s" % (op, T), H + decl + V + body, exp))
    return out


def generic_overload_programs():
    """several *generic* overloads of one operator: the one whose parameter types equal the operand types (under one
    consistent binding of its type parameters) is called, whatever was tried and rejected before it; pairs of operands that
    fit several generic overloads are not judged (the property does not rank them)"""
    H = ('Binde "Duden/Ausgabe" ein.\n\nWir nennen die Kombination aus\n\tder Zahl x mit Standardwert 0,\neinen Punkt, und erstellen sie so:\n\t"ein Punkt bei <x>"\n\n'
         'Wir nennen die Kombination aus\n\tder Zahl dx mit Standardwert 0,\neinen Vektor, und erstellen sie so:\n\t"ein Vektor um <dx>"\n\n')
    V = 'Der Punkt p ist ein Punkt bei 7.\nDer Vektor v ist ein Vektor um 3.\nDie Zahl z ist 2.\nDer Text t ist "txt".\n'
    tyname = {"P": "Punkt", "V": "Vektor", "Z": "Zahl", "X": "Text", "T": "T", "R": "R"}
    operand = {"P": "p", "V": "v", "Z": "z", "X": "t"}
    patterns = [("P", "T"), ("T", "Z"), ("V", "T"), ("T", "X"), ("T", "T"), ("Z", "T"), ("T", "R")]

    def matches(pat, a, b):
        bind = {}
        for want, got in zip(pat, (a, b)):
            if want in ("T", "R"):
                if bind.setdefault(want, got) != got:
                    return False
            elif want != got:
                return False
        return True
    out = []
    for i in range(len(patterns)):
        for j in range(len(patterns)):
            if i == j or {patterns[i], patterns[j]} == {("T", "T"), ("T", "R")}:
                continue        # (T, R) covers (T, T): declared in this order the second one is refused as a duplicate
            for op, tmpl, builtin in (("plus", "%s plus %s", 4), ("mal", "%s mal %s", 4)):
                pats = [patterns[i], patterns[j]]
                decls = ""
                for k, pat in enumerate(pats):
                    decls += ('Die generische Funktion ueber%d mit den Parametern a und b vom Typ %s und %s, gibt eine Zahl zurück, macht:\n\tGib %d zurück.\nUnd überlädt den "%s" Operator.\n\n'
                              % (k, tyname[pat[0]], tyname[pat[1]], 1000 + k, op))
                body, exp = "", ""
                for a in "PVZ":
                    for b in "PVZX":
                        m = [k for k, pat in enumerate(pats) if matches(pat, a, b)]
                        if a not in "PV" and b not in "PV":
                            # overloads are looked up for Kombinationen and type definitions; two built-in operands keep the built-in meaning
                            if a == "Z" and b == "Z":
                                body += "Schreibe die Zahl (%s) auf eine Zeile.\n" % (tmpl % (operand[a], operand[b]))
                                exp += "%d\n" % builtin
                            continue
                        if len(m) == 1:
                            body += "Schreibe die Zahl (%s) auf eine Zeile.\n" % (tmpl % (operand[a], operand[b]))
                            exp += "%d\n" % (1000 + m[0])
                if body:
                    out.append(("generic-overloads:%s:%s%s/%s%s" % ((op,) + pats[0] + pats[1]), H + decls + V + body, exp))
    return out


def referenz_overload_programs():
    """an operator overloaded twice for the same types, by value and by Referenz: the Referenz variant is chosen exactly for
    operands that are assignable (variables, list elements, fields, elements of fields, fields of elements, in any nesting) —
    `more Referenz parameters first` — and it sees the caller's storage"""
    H = ('Binde "Duden/Ausgabe" ein.\n'
         'Wir nennen die Kombination aus\n\tder Zahl x mit Standardwert 0,\neinen Punkt, und erstellen sie so:\n\t"ein Punkt mit x gleich <x>"\n\n'
         'Wir nennen die Kombination aus\n\tder Punkt Liste punkte mit Standardwert eine leere Punkt Liste,\n\tdem Punkt mitte mit Standardwert ein Punkt mit x gleich 0,\n'
         'eine Wolke, und erstellen sie so:\n\t"eine Wolke aus <punkte> um <mitte>"\n\n'
         'Die Funktion addiere_wert mit den Parametern a und b vom Typ Punkt und Punkt, gibt einen Text zurück, macht:\n\tGib "Wert" zurück.\nUnd überlädt den "plus" Operator.\n\n'
         'Die Funktion addiere_ref mit den Parametern a und b vom Typ Punkt Referenz und Punkt Referenz, gibt einen Text zurück, macht:\n'
         '\tSpeichere x von a plus x von b in x von a.\n\tGib "Referenz" zurück.\nUnd überlädt den "plus" Operator.\n\n'
         'Die Funktion betrag_wert mit dem Parameter a vom Typ Punkt, gibt einen Text zurück, macht:\n\tGib "Wert" zurück.\nUnd überlädt den "Betrag" Operator.\n\n'
         'Die Funktion betrag_ref mit dem Parameter a vom Typ Punkt Referenz, gibt einen Text zurück, macht:\n\tSpeichere 0 minus x von a in x von a.\n\tGib "Referenz" zurück.\nUnd überlädt den "Betrag" Operator.\n\n'
         'Die Funktion neuer_punkt gibt einen Punkt zurück, macht:\n\tGib ein Punkt mit x gleich 5 zurück.\nUnd kann so benutzt werden:\n\t"ein frischer Punkt"\n\n')
    V = ('Die Punkt Liste ps ist eine Liste, die aus (ein Punkt mit x gleich 1), (ein Punkt mit x gleich 2) besteht.\n'
         'Die Wolke w ist eine Wolke aus ps um (ein Punkt mit x gleich 3).\nDie Wolke Liste ws ist eine Liste, die aus w besteht.\nDer Punkt q ist ein Punkt mit x gleich 10.\nDer Punkt p ist ein Punkt mit x gleich 4.\n')
    # (operand, read-back expression of its x, x before, assignable)
    forms = [("p", "x von p", 4, True), ("(ps an der Stelle 1)", "x von (ps an der Stelle 1)", 1, True), ("(mitte von w)", "x von (mitte von w)", 3, True),
             ("(punkte von w an der Stelle 2)", "x von (punkte von w an der Stelle 2)", 2, True),
             ("(punkte von (ws an der Stelle 1) an der Stelle 1)", "x von (punkte von (ws an der Stelle 1) an der Stelle 1)", 1, True),
             ("(mitte von (ws an der Stelle 1))", "x von (mitte von (ws an der Stelle 1))", 3, True),
             ("(ein frischer Punkt)", None, 5, False), ("(ein Punkt mit x gleich 7)", None, 7, False)]
    out = []
    for i, (e, back, x0, ass) in enumerate(forms):
        body = "Schreibe (%s plus q) auf eine Zeile.\n" % e
        exp = "Referenz\n" if ass else "Wert\n"
        if back:
            body += "Schreibe (%s) auf eine Zeile.\n" % back
            exp += "%d\n" % (x0 + 10)
        out.append(("referenz-overload:binary:%d" % i, H + V + body, exp))
        body = "Schreibe (der Betrag von %s) auf eine Zeile.\n" % e
        exp = "Referenz\n" if ass else "Wert\n"
        if back:
            body += "Schreibe (%s) auf eine Zeile.\n" % back
            exp += "%d\n" % (-x0)
        out.append(("referenz-overload:unary:%d" % i, H + V + body, exp))
    return out


def referenz_alias_programs():
    """one alias pattern declared twice, with a value and with a Referenz parameter, for every kind of type: the Referenz
    variant is called exactly for assignable arguments (variable, list element, field), the value variant for temporaries
    and for a Buchstabe of a Text (which cannot be passed by Referenz)"""
    H = ('Binde "Duden/Ausgabe" ein.\n'
         'Wir nennen die Kombination aus\n\tder Zahl x mit Standardwert 0,\neinen Punkt, und erstellen sie so:\n\t"ein Punkt mit x gleich <x>"\n\n')
    kinds = [("Zahl", "Zahlen Referenz", "Zahlen Liste", "Die", "5", "6"), ("Kommazahl", "Kommazahlen Referenz", "Kommazahlen Liste", "Die", "2,5", "3,5"),
             ("Buchstabe", "Buchstaben Referenz", "Buchstaben Liste", "Der", "'a'", "'b'"), ("Text", "Text Referenz", "Text Liste", "Der", '"t"', '"u"'),
             ("Wahrheitswert", "Wahrheitswert Referenz", "Wahrheitswert Liste", "Der", "wahr", "falsch"), ("Byte", "Byte Referenz", "Byte Liste", "Der", "(7 als Byte)", "(8 als Byte)"),
             ("Punkt", "Punkt Referenz", "Punkt Liste", "Der", "(ein Punkt mit x gleich 1)", "(ein Punkt mit x gleich 2)")]
    out = []
    for i, (t, tref, tlist, art, v1, v2) in enumerate(kinds):
        decl = ('Die Funktion wert%d mit dem Parameter p vom Typ %s, gibt einen Text zurück, macht:\n\tGib "Wert" zurück.\nUnd kann so benutzt werden:\n\t"prüfe <p>"\n\n'
                'Die Funktion ref%d mit dem Parameter p vom Typ %s, gibt einen Text zurück, macht:\n\tGib "Referenz" zurück.\nUnd kann so benutzt werden:\n\t"prüfe <p>"\n\n'
                % (i, t, i, tref))
        fld = ('Wir nennen die Kombination aus\n\t%s %s feld mit Standardwert %s,\neinen Halter, und erstellen sie so:\n\t"ein Halter"\n\n'
               % ({"Die": "der", "Der": "dem"}[art], t, v1))
        vars_ = ("%s %s v ist %s.\nDie %s l ist eine Liste, die aus %s, %s besteht.\nDer Halter h ist ein Halter.\nDie Halter Liste hl ist eine Liste, die aus h besteht.\n"
                 % (art, t, v1, tlist, v1.strip("()") if not v1.startswith("(ein") else v1, v2.strip("()") if not v2.startswith("(ein") else v2))
        forms = [("v", "Referenz"), ("(l an der Stelle 2)", "Referenz"), ("(feld von h)", "Referenz"), ("(feld von (hl an der Stelle 1))", "Referenz"), (v1, "Wert")]
        if t == "Buchstabe":
            forms += [('("abc" an der Stelle 2)', "Wert"), ("(tx an der Stelle 1)", "Wert")]
            vars_ += 'Der Text tx ist "xyz".\n'
        if t == "Zahl":
            forms += [("(v plus 1)", "Wert"), ("(die Länge von l)", "Wert")]
        body = "".join("Schreibe (prüfe %s) auf eine Zeile.\n" % f for f, _ in forms)
        exp = "".join(w + "\n" for _, w in forms)
        out.append(("referenz-alias:%s" % t, H + fld + decl + vars_ + body, exp))
    return out


def span_stage(res, harness, model, rng, quick, st):
    """which tokens the parser binds to which placeholder name: FuncCall.Args against DDP.AliasMatch"""
    from .. import aliasspans as A
    progs = []
    for pi in range(60 if quick else 1200):
        fns = [A.Fn(i + 1, rng) for i in range(4)]
        src = A.HEAD + 'Die Zahl zv ist 41.\nDer Text tv ist "vt".\nDer Wahrheitswert wv ist wahr.\n\n' + "".join(f.source() for f in fns)
        expect = []      # (line, fn, call start col, {param name: (startcol, endcol)} or None, request)
        table = {}
        for ci in range(8):
            k = rng.below(len(fns))
            f = fns[k]
            call, nested = A.gen_call(rng, f, fns[:k], 2)
            stmt = A.Toks().add("Die", "o").add("Zahl", "o").add("r%d" % ci).add("ist", "o")
            off = len(stmt.t)
            stmt.extend(call).add(".")
            text, cols = stmt.render()
            line = src.count("\n") + 1
            src += text + "\n"
            for g, cl, o in [(f, call, 0)] + nested:
                start = off + o
                toks = stmt.t[start:]
                expect.append((line, g, cols[start] + 1, start, stmt.t, cols,
                               "aliasmatch %s %s" % (A.pattern_req(g, table), ",".join(A.ids_of(toks, table)))))
        for bi, (bname, bad) in enumerate(A.broken_args()):
            f = fns[rng.below(len(fns))]
            stmt = A.Toks().add("Die", "o").add("Zahl", "o").add("b%d" % bi).add("ist", "o")
            off = len(stmt.t)
            for k, x in f.pattern:
                if k == "w":
                    stmt.add(x)
                elif x == f.pattern[[i for i, (kk, _) in enumerate(f.pattern) if kk == "p"][0]][1] and not getattr(stmt, "done", False):
                    stmt.extend(bad)
                    stmt.done = True
                else:
                    stmt.add("1")
            stmt.add(".")
            text, cols = stmt.render()
            line = src.count("\n") + 1
            src += text + "\n"
            expect.append((line, f, cols[off] + 1, off, stmt.t, cols,
                           "aliasmatch %s %s" % (A.pattern_req(f, table), ",".join(A.ids_of(stmt.t[off:], table)))))
        progs.append((src, expect))
    outs = corr.parse_many(harness, [{"files": {"main.ddp": s}, "main": "main.ddp", "dump": ["calls"]} for s, _ in progs])
    answers = corr.run_lines(model, [e[-1] for _, ex in progs for e in ex])
    ai = 0
    for (src, expect), o in zip(progs, outs):
        res.evaluations += 1
        if o["result"] != "ok":
            ai += len(expect)
            res.violation("spans-frontend:%s" % (hash(src) % 10 ** 9), "the front end answers %s on a program of alias calls" % o["result"],
                          {"program": src, "implementation": {k: v for k, v in o.items() if k != "diags"}})
            continue
        dumped = {}
        for l in o["extra"].get("calls", []):
            f = l.split()
            rng_ = f[2]
            ln, col = rng_.split("-")[0].split(":")
            dumped[(f[1], int(ln), int(col))] = (rng_, dict(x.split("=") for x in f[3:]))
        for (line, g, col, start, toks, cols, rq) in expect:
            ans = answers[ai]
            ai += 1
            got = dumped.get((g.name, line, col))
            if ans.startswith("nomatch"):
                st["spans:nomatch"] += 1
                if got is not None:
                    res.violation("spans:unexpected-call:%s" % (hash(src + rq) % 10 ** 9),
                                  "the parser parses a call of %s where the matching rules refuse the argument" % g.name,
                                  {"program": src, "line": line, "column": col, "model_request": rq, "model": ans, "implementation": got})
                continue
            st["spans:match"] += 1
            want = {}
            f = ans.split()
            for b in f[2].split(";"):
                name, sl = b.split("=")
                s0, ln_ = [int(x) for x in sl.split("+")]
                a, z = start + s0, start + s0 + ln_ - 1
                want[g.params[int(name)][0]] = "%d:%d-%d:%d" % (line, cols[a] + 1, line, cols[z] + len(toks[z][0]) + 1)
            if f[2] != f[4]:
                res.violation("spans:model-loops-disagree:%s" % (hash(rq) % 10 ** 9), "matchPat and cutArgs disagree (contradicts theorem cutArgs_eq)",
                              {"model_request": rq, "model": ans}, has_input=False)
            res.nontrivial("spans:%d:%s" % (len(g.params), ans.split()[1]))
            if got is None or got[1] != want:
                res.violation("spans:%s" % (hash(src + rq) % 10 ** 9),
                              "the arguments of a call of %s are bound to other tokens / other parameter names than the matching rules say" % g.name,
                              {"program": src, "line": line, "column": col, "expected_args": want, "implementation": got,
                               "model_request": rq, "model": ans, "all_calls": o["extra"].get("calls", [])})


def check(res, tier):
    sd = seed()
    rng = Rng(sd)
    broken = leanproj.prove(res, "Props.C09", "Props/C09.lean")
    model = build_model()
    harness = corr.build_harness()
    ddp = pipeline.build()
    quick = tier == "quick"
    # (1) the order in which candidates are tried
    reqs = []
    for _ in range(3000 if quick else 40000):
        n = 1 + rng.below(7)
        cs = []
        for _ in range(n):
            g = rng.below(3)
            cs.append("%d.%d.%d" % (2 + rng.below(4), g, g + rng.below(3) if rng.below(2) else rng.below(g + 1)))
        reqs.append("sortaliases " + ";".join(cs))
    a = corr.run_lines(harness, reqs)
    b = corr.run_lines(model, reqs)
    for rq, x, y in zip(reqs, a, b):
        res.evaluations += 1
        if x != y:
            res.violation("sort:" + rq, "sortAliases and its model order the candidates differently: %s vs %s" % (x, y),
                          {"request": rq, "implementation": x, "model": y, "kind": "correspondence",
                           "theorem": "Props/C09.lean (sortC_ordered, select_best are about this order)"})
            break
    # (2) programs
    st = Counter()
    jobs, meta = [], []
    for pi in range(40 if quick else 600):
        fns = gen_family(rng, "zeige", 1)
        fns += gen_family(rng, "melde", 1 + len(fns))
        if not fns:
            continue
        calls, resolve_reqs, cands_per_call = [], [], []
        for _ in range(12):
            call = gen_call(rng, fns)
            cs = candidates(call, fns)
            if not cs:
                continue
            calls.append(call)
            cands_per_call.append(cs)
            resolve_reqs.append("resolve " + ";".join("%d.%d.%d.%d" % (f.length(), sum(1 for _, t, _ in f.params if t == "G"),
                                                                     sum(1 for _, _, r in f.params if r), 1 if fits else 0) for f, fits in cs))
        answers = corr.run_lines(model, resolve_reqs)
        src = HEAD + 'Die Zahl zv ist 41.\nDer Text tv ist "vt".\nDie Kommazahl kv ist 2,5.\n\n' + "".join(f.source() for f in fns)
        exp = ""
        kept = 0
        for call, cs, ans in zip(calls, cands_per_call, answers):
            if ans == "none":
                st["no-candidate-fits"] += 1
                continue
            best = [f for f, fits in cs if fits and "%d.%d.%d" % (f.length(), sum(1 for _, t, _ in f.params if t == "G"),
                                                                  sum(1 for _, _, r in f.params if r)) == ans]
            if len(best) != 1:
                st["tie-unspecified"] += 1
                continue
            f = best[0]
            if f.length() != len(call):
                st["shorter-alias-leaves-tokens"] += 1
                continue
            src += render_call(call) + "\n"
            exp += expected_line(f, call)
            kept += 1
            st["calls"] += 1
            st["candidates:%d" % min(len(cs), 5)] += 1
            if len([1 for _, fits in cs if fits]) > 1:
                st["several-fitting"] += 1
        if kept:
            jobs.append(({"main.ddp": src}, pipeline.Config(opt=1), {}))
            meta.append((src, exp))
    outs = pipeline.farm(ddp, jobs)
    for r, (src, exp) in zip(outs, meta):
        res.evaluations += 1
        st["impl:" + r.cls] += 1
        res.nontrivial(str(hash(exp)))
        if r.cls == "compile-rejected":
            st["generator-rejected"] += 1
            if "bereits" in r.compile_out or "existiert" in r.compile_out:
                continue
        if r.cls != "ok" or r.stdout != exp:
            if len(res.violations) < 3:
                first = next((i for i, (x, y) in enumerate(zip((r.stdout + "\n").split("\n"), exp.split("\n"))) if x != y), -1)
                res.violation("resolution:%s" % (hash(src) % 10 ** 9), "a call went to another function than the model selects (%s, first differing call %d)" % (r.cls, first),
                              {"program": src, "expected_stdout": exp, "implementation": r.as_dict()})
    # (2b) argument spans and binding by name
    span_stage(res, harness, model, rng, quick, st)
    # (3) fixed programs, operator overloads over aliases and type definitions
    fixed_all = FIXED + overload_programs() + generic_overload_programs() + referenz_overload_programs() + referenz_alias_programs()
    fixed = pipeline.farm(ddp, [({"main.ddp": s}, pipeline.Config(opt=1), {}) for _, s, _ in fixed_all])
    for (name, src, want), r in zip(fixed_all, fixed):
        res.evaluations += 1
        res.nontrivial("fixed:" + name)
        if r.cls != "ok" or r.stdout != want:
            res.violation("fixed:" + name, "%s: expected %r, got %s %r" % (name, want, r.cls, r.stdout[-200:]),
                          {"program": src, "expected_stdout": want, "implementation": r.as_dict()})
    for bk in broken:
        res.violation("obligation:" + bk["name"], "proof obligation no longer checks: %s" % bk["name"],
                      {"theorem": bk["name"], "detail": bk["detail"], "kind": "broken-obligation"}, has_input=False)
    res.extra.update({"sort_requests": len(reqs), "programs": len(jobs), "call_statistics": dict(st), "fixed_programs": [n for n, _, _ in FIXED]})
    res.rule = ("random candidate lists through the real sortAliases; programs with 2 alias families of 5-9 functions each (shared first "
                "word; patterns that are prefixes of each other; same pattern with other parameter types; generic and Referenz variants; "
                "placeholders in another order than the parameters) and 12 calls each with literal and variable arguments: the function "
                "that runs and the parameter values by name against the model's selection; negated alias, operator overloads, binding by "
                "name as fixed programs")
    res.assumptions += ["calls whose best candidates tie on (length, generic, Referenz) are unspecified by the property and not judged"]

"""C14 — type equivalence is lawful; aliases transparent, definitions opaque."""
import itertools

from .. import corr, leanproj
from ..common import Rng, seed, error_codes

BASES = ["Z", "K", "B", "T", "V", "S1", "S2", "N"]


class Universe:
    """closure of the bases under list-of, alias-of and two distinct definitions of the
    same base, with consistent definition identities"""

    def __init__(self):
        self.ids = {}

    def defid(self, inner, variant):
        k = (inner, variant)
        if k not in self.ids:
            self.ids[k] = len(self.ids) + 1
        return self.ids[k]

    def level(self, prev):
        out = []
        for t in prev:
            if t != "N":
                out.append("L(%s)" % t)
            out.append("A(%s)" % t)
            if t not in ("N",):
                out.append("D%d(%s)" % (self.defid(t, 0), t))
                out.append("D%d(%s)" % (self.defid(t, 1), t))
        return out

    def upto(self, depth):
        levels = [list(BASES)]
        for _ in range(depth):
            levels.append(self.level(levels[-1]))
        return [t for l in levels for t in l]


# ---- program level: source forms -----------------------------------------------------

PRIM_SRC = {"Z": ("Zahl", "f"), "K": ("Kommazahl", "f"), "B": ("Byte", "m"), "T": ("Text", "m"), "V": ("Variable", "f"), "S1": ("Punkt", "m")}
PLURAL = {"Z": "Zahlen", "K": "Kommazahlen", "B": "Byte", "T": "Text", "V": "Variablen"}


class Prog:
    def __init__(self):
        self.decls = []
        self.names = {}

    def src(self, t):
        """returns (source text, gender) or None if the type has no source form"""
        if t in PRIM_SRC:
            return PRIM_SRC[t]
        if t.startswith("L("):
            inner = t[2:-1]
            if inner in PLURAL:
                return (PLURAL[inner] + " Liste", "f")
            if inner.startswith("L("):
                return None
            s = self.src(inner)
            if s is None:
                return None
            return (s[0] + " Liste", "f")
        if t.startswith("A("):
            inner = t[2:-1]
            s = self.src(inner)
            if s is None:
                return None
            if t not in self.names:
                n = "Ali%s" % chr(ord("a") + len(self.names))
                self.names[t] = n
                self.decls.append("Wir nennen eine %s auch eine %s." % (s[0], n))
            return (self.names[t], "f")
        if t.startswith("D"):
            inner = t[t.index("(") + 1:-1]
            if inner == "V" or inner.startswith("A(") and self.strip(inner) == "V":
                return None   # a definition of Variable is rejected by the declaration itself
            s = self.src(inner)
            if s is None:
                return None
            if t not in self.names:
                n = "Def%s" % chr(ord("a") + len(self.names))
                self.names[t] = n
                self.decls.append("Wir definieren eine %s als eine %s." % (n, s[0]))
            return (self.names[t], "f")
        return None

    def strip(self, t):
        while t.startswith("A("):
            t = t[2:-1]
        return t


STRUCT = "Wir nennen die Kombination aus\n\tder Zahl x mit Standardwert 0,\neinen Punkt, und erstellen sie so:\n\t\"der Nullpunkt\"\n"


def program(pos, sigma, tau):
    """sigma supplied where tau is required; returns source or None"""
    p = Prog()
    s = ("nichts", "n") if sigma == "N" else p.src(sigma)
    t = p.src(tau)
    if s is None or t is None:
        return None
    # a value of type 'nichts' is the result of calling a function that returns nothing
    val = lambda x: "(tue nichts)" if x[0] == "nichts" else "der Standardwert von %s %s" % ("einer" if x[1] == "f" else "einem", x[0])
    art = "Die" if t[1] == "f" else "Der"
    head = STRUCT + "\n".join(p.decls) + "\n"
    if sigma == "N":
        head += 'Die Funktion tue_nichts gibt nichts zurück, macht:\n\tDie Zahl lokal ist 1.\nUnd kann so benutzt werden:\n\t"tue nichts"\n\n'
    if pos == "return":
        ein = {"f": "eine", "m": "einen", "n": "ein"}.get(t[1], "einen")
        return head + 'Die Funktion gib_es gibt %s %s zurück, macht:\n\tGib %s zurück.\nUnd kann so benutzt werden:\n\t"gib es"\n' % (ein, t[0], val(s))
    if pos == "init":
        return head + "%s %s x ist %s.\n" % (art, t[0], val(s))
    if pos == "assign":
        return head + "%s %s x ist %s.\nSpeichere (%s) in x.\n" % (art, t[0], val(t), val(s))
    if pos == "cast":
        return head + "Die Variable v ist (%s) als %s.\n" % (val(s), t[0])
    if pos in ("listrep", "listlit"):
        # a list literal of values of type sigma where a `tau Liste` is required (both forms of the literal)
        lt = p.src("L(%s)" % tau)
        if lt is None or sigma == "N" or sigma.startswith("L(") or tau.startswith("L(") or p.src("L(%s)" % sigma) is None:
            return None
        head = STRUCT + "\n".join(p.decls) + "\n"
        lit = "2 Mal (%s)" % val(s) if pos == "listrep" else "eine Liste, die aus (%s), (%s) besteht" % (val(s), val(s))
        return head + "Die %s x ist %s.\n" % (lt[0], lit)


def check(res, tier):
    rng = Rng(seed())
    broken = leanproj.prove(res, "Props.C14", "Props/C14.lean")
    harness = corr.build_harness()
    model = corr.build_model()
    u = Universe()
    depth = 2 if tier == "quick" else 3
    types = u.upto(depth)
    lines = []
    for a in types:
        for b in types:
            lines.append("types %s %s" % (a, b))
    nex = len(lines)
    if tier == "quick":
        # sample of the next depth
        deeper = u.upto(3)
        for _ in range(20000):
            lines.append("types %s %s" % (rng.choice(deeper), rng.choice(deeper)))
    a = corr.run_lines(harness, lines)
    b = corr.run_lines(model, lines)
    res.evaluations = len(lines)
    mism = 0
    for i, (x, y) in enumerate(zip(a, b)):
        res.nontrivial(lines[i])
        if x != y:
            mism += 1
            if mism <= 5:
                res.violation("corr:" + lines[i], "model and implementation disagree on type predicates",
                              {"request": lines[i], "implementation": x, "model": y,
                               "correspondence": "harness types (ddptypes.Equal/DeepEqual/GetUnderlying/TrueUnderlying/Is*) vs DDP.Types"}, has_input=False)
    # property monitor on the implementation: laws on the Equal matrix (exhaustive part)
    n = len(types)
    eq = [[a[i * n + j].split()[0] == "equal=1" for j in range(n)] for i in range(n)]
    for i in range(n):
        if not eq[i][i]:
            res.violation("law:refl:" + types[i], "Equal is not reflexive", {"type": types[i]})
        for j in range(n):
            if eq[i][j] != eq[j][i]:
                res.violation("law:symm:%s:%s" % (types[i], types[j]), "Equal is not symmetric", {"types": [types[i], types[j]]})
    # transitivity: classes must be consistent
    cls = {}
    for i in range(n):
        key = tuple(j for j in range(n) if eq[i][j])
        for j in key:
            if tuple(k for k in range(n) if eq[j][k]) != key:
                res.violation("law:trans:%s:%s" % (types[i], types[j]), "Equal is not transitive", {"types": [types[i], types[j]]})
                break
    for i, t in enumerate(types):
        if t.startswith("A("):
            j = types.index(t[2:-1])
            if not eq[i][j]:
                res.violation("law:alias:" + t, "an alias is not equivalent to its target", {"type": t})
        if t.startswith("D"):
            j = types.index(t[t.index("(") + 1:-1])
            if eq[i][j]:
                res.violation("law:typedef:" + t, "a type definition is equivalent to its base type", {"type": t})
    # ---- the three positions through the real parser + checker
    pd = 2 if tier == "thorough" else 1
    ptypes = [t for t in Universe().upto(2) if t != "N" and "S2" not in t and "N" not in t]
    if tier == "quick":
        # all depth<=1 types, plus depth-2 sample
        d1 = [t for t in Universe().upto(1) if "N" not in t and "S2" not in t]
        pairs = [(s, t) for s in d1 for t in d1] + [("N", t) for t in d1]
        d2 = ptypes
        for _ in range(600):
            pairs.append((rng.choice(d2), rng.choice(d2)))
    else:
        pairs = [(s, t) for s in ptypes for t in ptypes] + [("N", t) for t in ptypes]
    reqs, meta, qlines = [], [], []
    for (s, t) in pairs:
        for pos in ("init", "assign", "cast", "return", "listrep", "listlit"):
            src = program(pos, s, t)
            if src is None:
                continue
            reqs.append({"files": {"main.ddp": src}, "main": "main.ddp"})
            meta.append((pos, s, t))
            # a list literal has the type `sigma Liste`; it initialises a `tau Liste`
            qlines.append("typos %s %s %s" % (pos, s, t) if not pos.startswith("list") else "typos init L(%s) L(%s)" % (s, t))
    outs = corr.parse_many(harness, reqs)
    want = corr.run_lines(model, qlines)
    codes = error_codes()
    bad_codes = {"init": codes["TYP_BAD_ASSIGNEMENT"], "assign": codes["TYP_BAD_ASSIGNEMENT"], "cast": codes["TYP_BAD_CAST"], "return": codes["TYP_WRONG_RETURN_TYPE"],
                 "listrep": codes["TYP_BAD_ASSIGNEMENT"], "listlit": codes["TYP_BAD_ASSIGNEMENT"]}
    res.evaluations += len(reqs)
    pm = 0
    accepted = 0
    for r, m, o, w in zip(reqs, meta, outs, want):
        pos, s, t = m
        res.nontrivial("pos:%s:%s:%s" % m)
        errs = [d for d in o.get("diags", []) if d["level"] == 2]
        other = [d for d in errs if d["code"] != bad_codes[pos]]
        if o["result"] != "ok" or other:
            res.violation("harness:%s:%s:%s" % m, "test program for a type position is not well-formed for another reason",
                          {"program": r["files"]["main.ddp"], "implementation": o}, has_input=False)
            continue
        impl_ok = not errs
        accepted += impl_ok
        if impl_ok != (w == "1"):
            pm += 1
            if pm <= 5:
                res.violation("corr:pos:%s:%s:%s" % m, "model and type checker disagree whether %s is accepted where %s is required (%s)" % (s, t, pos),
                              {"program": r["files"]["main.ddp"], "implementation": o, "model": w,
                               "correspondence": "parser.Parse verdict vs DDP.Types.%sOk" % pos}, has_input=False)
    # ---- the same laws behind instantiations of a generic Kombination: X-Halter and Y-Halter are one type exactly when X and Y are
    GH = ('Wir definieren eine Hausnummer als eine Zahl.\nWir definieren eine Postleitzahl als eine Zahl.\nWir nennen eine Zahl auch eine Strecke.\n'
          'Wir definieren einen Namen als einen Text.\n\nWir nennen die generische Kombination aus\n\tdem T wert,\neinen Halter, und erstellen sie so:\n\t"ein Halter mit <wert>"\n\n')
    GT = {"Zahl": ("Zahl", "7"), "Strecke": ("Zahl", "7"), "Hausnummer": ("H", "(7 als Hausnummer)"), "Postleitzahl": ("P", "(7 als Postleitzahl)"),
          "Text": ("Text", '"t"'), "Namen": ("N", '("t" als Namen)')}
    greqs, gmeta = [], []
    for x in GT:
        for y in GT:
            for first in ("source", "target"):
                for binit in ("literal", "default"):
                    da = "Der %s-Halter a ist ein Halter mit %s.\n" % (x, GT[x][1])
                    db = ("Der %s-Halter b ist ein Halter mit %s.\n" % (y, GT[y][1]) if binit == "literal" else
                          "Der %s-Halter b ist der Standardwert von einem %s-Halter.\n" % (y, y))
                    body = (da + db if first == "source" else db + da)
                    for pos, stmt in (("assign", "Speichere a in b.\n"), ("init", "Der %s-Halter c ist a.\n" % y), ("field", "%s %s f ist wert von a.\n" % (
                            "Der" if y in ("Text", "Namen") else "Die", y))):
                        greqs.append({"files": {"main.ddp": GH + body + stmt}, "main": "main.ddp"})
                        gmeta.append((pos, x, y, first + ":" + binit))
    gouts = corr.parse_many(harness, greqs)
    res.evaluations += len(greqs)
    gbad = 0
    for r, (pos, x, y, first), o in zip(greqs, gmeta, gouts):
        res.nontrivial("generic:%s:%s:%s:%s" % (pos, x, y, first))
        stmt_line = r["files"]["main.ddp"].count("\n")          # the statement under test is the last line
        errs_all = [d for d in o.get("diags", []) if d["level"] == 2]
        before = [d for d in errs_all if d["range"][0] < stmt_line]
        errs = [d for d in errs_all if d["range"][0] >= stmt_line]
        want_ok = GT[x][0] == GT[y][0]
        if o["result"] == "ok" and before:
            # the two declarations are well-formed whatever x and y are: each gives its Halter a value of exactly its type
            gbad += 1
            if gbad <= 4:
                res.violation("generic-instantiation-decl:%s:%s:%s" % (x, y, first),
                              "a well-formed declaration of a %s-Halter / %s-Halter is rejected (%s): the instantiations of a generic Kombination with a "
                              "type definition and with its base type are different types, each accepting values of its own type" % (x, y, before[0]["msg"][:200]),
                              {"program": r["files"]["main.ddp"], "implementation": o, "expected": "declarations accepted"})
            continue
        if o["result"] != "ok" or (not errs) != want_ok:
            gbad += 1
            if gbad <= 4:
                res.violation("generic-instantiation:%s:%s:%s:%s" % (pos, x, y, first),
                              "a %s-Halter is %s where a %s-Halter is required (%s, %s declared first): type definitions stay opaque and aliases transparent behind "
                              "instantiations of a generic Kombination" % (x, "accepted" if not errs else "rejected", y, pos, first),
                              {"program": r["files"]["main.ddp"], "implementation": o, "expected": "accepted" if want_ok else "rejected"})
    res.extra.update({"generic_instantiation_programs": len(greqs)})
    res.extra.update({"type_pairs_exhaustive": nex, "types": n, "depth": depth, "position_programs": len(reqs),
                      "position_accepted": accepted, "disagreements": mism + pm})
    res.exhaustive = True
    res.rule = ("all ordered pairs of the %d types of depth <= %d over bases %s under list/alias/two definitions (exhaustive) "
                "[+ random depth-3 pairs in quick]; every predicate compared with the model; laws monitored on the implementation's "
                "Equal matrix; four syntactic positions (initialiser, assignment, cast, returned value) for every ordered pair of expressible types, "
                "and a value of type 'nichts' in each, through parser.Parse") % (n, depth, BASES)
    for i in (10, nex // 2):
        res.sample({"request": lines[i], "implementation": a[i], "model": b[i]})
    if reqs:
        res.sample({"program": reqs[len(reqs) // 3]["files"]["main.ddp"], "meta": meta[len(reqs) // 3], "model_accepts": want[len(reqs) // 3]})
    for bk in broken:
        res.violation("obligation:" + bk["name"], "proof obligation no longer checks: %s" % bk["name"],
                      {"theorem": bk["name"], "detail": bk["detail"], "kind": "broken-obligation"}, has_input=False)

"""C17 — Duden list, text, character, number, statistics and sorting functions meet their specification.

Theorems: lean/Props/C17.lean about DDP.Duden (the documented meaning as sequence operations:
lengths, inverses, involution, sum laws, sorting = ordered permutation, split/join inverse, trim,
padding, comparison; second part: range insertion, descending lists, removing letters, letters of a
text, Levenshtein, splitting at a set, UTF-8 round trip, letter classes and case mapping, rounding,
max/min/clamp of Kommazahlen, factorial, divisors, highest/lowest, frequencies, modal values).
Tie: for ~300 call forms of Duden/Listen (Zahlen, Text, Buchstaben, Kommazahlen and Wahrheitswert
lists), Texte, Sortierung, Zeichen, Zahlen, Mathe and Statistik, in their value and Referenz variants,
DDP programs call the real library on generated arguments (boundary lengths 0/1/2, duplicates,
multi-byte characters, every ASCII character) and print result and arguments; the output is compared
with `ddpmodel duden`.  Kommazahl results are judged only where they are exactly representable.
Library functions that disagree with their documentation: C17_FINDINGS.md."""
from collections import Counter

from .. import leanproj, pipeline, corr, evalcorr
from ..common import Rng, seed
from ..corr import build_model

HEAD = 'Binde "Duden/Ausgabe" ein.\nBinde "Duden/Listen" ein.\nBinde "Duden/Texte" ein.\nBinde "Duden/Sortierung" ein.\nBinde "Duden/Mathe" ein.\n\n'
HEAD_B = 'Binde "Duden/Ausgabe" ein.\nBinde "Duden/Listen" ein.\nBinde "Duden/Sortierung" ein.\nBinde "Duden/Mathe" ein.\nBinde "Duden/Statistik" ein.\nBinde "Duden/Zahlen" ein.\nBinde "Duden/Zeichen" ein.\n\n'
HEAD_C = 'Binde "Duden/Ausgabe" ein.\nBinde "Duden/TextIterator" ein.\n\n'
HEADS = {"A": HEAD, "B": HEAD_B, "C": HEAD_C}
ITER_CHARS = [0x61, 0x62, 0xE4, 0xDF, 0x20AC, 0x1F600, 0x20]


def show_iter(ans):
    out = ""
    for view in ans.split(";"):
        idx, ch, verbl, beh, rest, bisher = view.split(":")
        out += "%s:%s:%s:%s:%s:%s;" % (idx, ch, verbl, beh, show_text(rest)[:-1], show_text(bisher)[:-1])
    return out + "|0\n"


def iter_cases(rng, add):
    """Duden/TextIterator: every query at every position of a walk over a text with letters of 1-4 bytes"""
    n = 1 + rng.below(6)
    t = [ITER_CHARS[rng.below(len(ITER_CHARS))] for _ in range(n)]
    q = [("den momentanen Index von it", False), ("(den momentanen Buchstaben von it) als Zahl", True), ("die Anzahl der verbleibenden Buchstaben von it", False),
         ("die Anzahl der bereits behandelten Buchstaben von it", False), ("den Rest von it", False), ("den bisherigen Text von it", False)]
    body = "".join('\tSchreibe (%s).\n\tSchreibe "%s".\n' % (e, ";" if k == len(q) - 1 else ":") for k, (e, _) in enumerate(q))
    src = ("Der Text t ist %s.\nDer TextIterator it ist ein TextIterator über t.\nSolange it nicht zuende ist, mache:\n" % lit_text(t) + body +
           '\tSetzte it auf den nächsten Buchstaben.\nSchreibe "|".\nSchreibe (die Anzahl der verbleibenden Buchstaben von it) auf eine Zeile.\n')
    add("textiter", "duden textiter %s" % enc_ints(t), src, show_iter, head="C")

CHARS = [0x61, 0x62, 0x20, 0x2C, 0xE4, 0x20AC, 0x1F600, 0x41, 0x5A, 0x7A]


def lit_int(v):
    return str(v) if v >= 0 else "(-%d)" % -v


def lit_list(l):
    return "eine leere Zahlen Liste" if not l else "eine Liste, die aus %s besteht" % ", ".join(lit_int(v) for v in l)


def lit_char(c):
    return "'%s'" % {0x27: "\\'", 0x5C: "\\\\"}.get(c, chr(c))


def lit_text(t):
    return '"%s"' % "".join({0x22: '\\"', 0x5C: "\\\\"}.get(c, chr(c)) for c in t)


def lit_textlist(ts):
    return "eine leere Text Liste" if not ts else "eine Liste, die aus %s besteht" % ", ".join(lit_text(t) for t in ts)


def enc_ints(l):
    return ",".join(str(v) for v in l) or "-"


def enc_texts(ts):
    return "/".join(enc_ints(t) for t in ts) if ts else "leer"


# printing helpers (DDP source) -------------------------------------------------
def p_list(v):
    return "Schreibe \"[\".\nFür jede Zahl el in %s, mache:\n\tSchreibe el.\n\tSchreibe \",\".\nSchreibe \"]\" auf eine Zeile.\n" % v


def p_textlist(v):
    return "Schreibe \"[\".\nFür jeden Text el in %s, mache:\n\tSchreibe el.\n\tSchreibe \"|\".\nSchreibe \"]\" auf eine Zeile.\n" % v


def p_scalar(v):
    return "Schreibe (%s) auf eine Zeile.\n" % v


def show_list(enc):
    return "[" + "".join(x + "," for x in ([] if enc == "-" else enc.split(","))) + "]\n"


def show_text(enc):
    return "".join(chr(int(x)) for x in ([] if enc == "-" else enc.split(","))) + "\n"


def show_textlist(enc):
    if enc == "leer":
        return "[]\n"
    return "[" + "".join(show_text(x)[:-1] + "|" for x in enc.split("/")) + "]\n"


def show_bool(enc):
    return ("wahr" if enc == "1" else "falsch") + "\n"


class Case:
    def __init__(self, name, model_req, src, shows, domain_ok=True):
        self.name, self.model_req, self.src, self.shows = name, model_req, src, shows


def gen_list(rng, maxlen=5):
    n = [0, 1, 2, 3, 5][rng.below(5)]
    pool = [0, 1, -1, 2, 2, 7, -7, 100, 2 ** 40]
    return [pool[rng.below(len(pool))] for _ in range(n)]


def gen_text(rng):
    n = [0, 1, 2, 4, 7][rng.below(5)]
    return [CHARS[rng.below(len(CHARS))] for _ in range(n)]


# ------------------------------------------------------------------------------------------------
# second part: remaining functions of Listen/Texte, Zeichen, Zahlen, Mathe, Statistik, Sortierung

def p_bool(v):
    """a Wahrheitswert is observed through a branch (printing a negated call result directly shows the compiler's
    unnormalised i1 instead of the library's answer, see C17_FINDINGS.md)"""
    return "Wenn %s, Schreibe \"wahr\" auf eine Zeile.\nSonst Schreibe \"falsch\" auf eine Zeile.\n" % v


def lit_komma(k):
    """a Kommazahl literal for k eighths"""
    txt = ("%.3f" % (abs(k) / 8.0)).rstrip("0")
    if txt.endswith("."):
        txt += "0"
    txt = txt.replace(".", ",")
    return txt if k >= 0 else "(-%s)" % txt


def fmt_komma(k):
    """what `Schreibe` prints for k eighths (the runtime formats with %.16g)"""
    return "%.16g" % (k / 8.0)


def lit_bool(v):
    return "wahr" if v else "falsch"


class Kind:
    """an element type of the generic list functions: pool of values, their numbering for the model
    (injective; order preserving for numbers), literal and printed form"""

    def __init__(self, key, listtype, loop, pool, lit, fmt, code=None, val=None):
        self.key, self.listtype, self.loop, self.pool, self.lit, self.fmt = key, listtype, loop, pool, lit, fmt
        self.code = code or (lambda v: v)
        self.val = val or (lambda c: c)

    def lit_list(self, vs):
        return "eine leere %s" % self.listtype if not vs else "eine Liste, die aus %s besteht" % ", ".join(self.lit(v) for v in vs)

    def enc(self, vs):
        return enc_ints([self.code(v) for v in vs])

    def p_list(self, var):
        return "Schreibe \"[\".\n%s %s, mache:\n\tSchreibe el.\n\tSchreibe \";\".\nSchreibe \"]\" auf eine Zeile.\n" % (self.loop, var)

    def show(self, enc):
        return "[" + "".join(self.fmt(self.val(int(x))) + ";" for x in ([] if enc == "-" else enc.split(","))) + "]\n"

    def gen(self, rng):
        n = [0, 1, 2, 3, 5][rng.below(5)]
        return [self.pool[rng.below(len(self.pool))] for _ in range(n)]


TPOOL = [[], [0x61], [0xE4, 0x20AC], [0x62, 0x20, 0x63], [0x1F600], [0x61, 0x61]]
KINDS = {
    "Z": Kind("Z", "Zahlen Liste", "Für jede Zahl el in", [0, 1, -1, 2, 2, 7, -7, 100, 2 ** 40], lit_int, str),
    "T": Kind("T", "Text Liste", "Für jeden Text el in", TPOOL, lit_text, lambda t: "".join(chr(c) for c in t),
              code=lambda v: TPOOL.index(v), val=lambda c: TPOOL[c]),
    "B": Kind("B", "Buchstaben Liste", "Für jeden Buchstaben el in", [0x61, 0x62, 0xE4, 0x20AC, 0x1F600, 0x20], lit_char, chr),
    "K": Kind("K", "Kommazahlen Liste", "Für jede Kommazahl el in", [-12, 0, 2, 4, 12, 20, 8, 2], lit_komma, fmt_komma),
    "W": Kind("W", "Wahrheitswert Liste", "Für jeden Wahrheitswert el in", [0, 1], lit_bool, lit_bool),
}


def show_raw(x):
    return x + "\n"


def show_char(x):
    return chr(int(x)) + "\n"


def show_rats(x):
    return "[" + "".join(v + ";" for v in ([] if x == "-" else x.split(","))) + "]\n"


def p_klist(v):
    return KINDS["K"].p_list(v)


def generic_list_cases(rng, add, kind, only_new=False):
    """the generic functions of Duden/Listen for one element type, Referenz and value forms"""
    k = kind
    l, o = k.gen(rng), k.gen(rng)
    e = k.pool[rng.below(len(k.pool))]
    L, O, E = k.lit_list(l), k.lit_list(o), k.lit(e)
    el, eo, ee = k.enc(l), k.enc(o), k.code(e)
    decl = "Die %s l ist %s.\nDie %s o ist %s.\n" % (k.listtype, L, k.listtype, O)
    P, S = k.p_list, k.show
    tag = "-" + k.key
    same_l, same_o = S(el), S(eo)
    add("leere" + tag, "duden leere %s" % el, decl + "Leere l.\n" + P("l") + p_bool("l leer ist"), lambda x: S(x) + "wahr\n")
    add("voranstellenListe" + tag, "duden voranstellenListe %s %s" % (el, eo), decl + "Stelle o vor l.\n" + P("l") + P("o"), S, same_o)
    add("voranstellenListe-lit" + tag, "duden voranstellenListe %s %s" % (el, eo), decl + "Stelle (%s) vor l.\n" % O + P("l"), S)
    add("enthaelt-value" + tag, "duden enthaelt %s %d" % (el, ee), decl + p_bool("(%s) %s enthält" % (L, E)), show_bool)
    add("leer-value" + tag, "duden leer %s" % el, decl + p_bool("(%s) leer ist" % L), show_bool)
    add("gespiegelt-value" + tag, "duden gespiegelt %s" % el, "Die %s r ist (%s) gespiegelt.\n" % (k.listtype, L) + P("r"), S)
    # there are |l|+1 insert positions: the one behind the last element appends (position 1 of the empty list)
    for i in sorted({1 + rng.below(len(l) + 1), len(l) + 1}):
        add("einfuegenBereich" + tag, "duden einfuegenBereich %s %d %s" % (el, i, eo),
            decl + "Setze die Elemente in o an die Stelle %d von l.\n" % i + P("l") + P("o"), S, same_o)
        add("einfuegenBereich-selbst" + tag, "duden einfuegenBereich %s %d %s" % (el, i, el),
            decl + "Setze die Elemente in l an die Stelle %d von l.\n" % i + P("l"), S)
    if l:
        n = 1 + rng.below(len(l))
        add("ersteN-value" + tag, "duden ersteN %s %d" % (el, n), "Die %s r ist die ersten %d Elemente von (%s).\n" % (k.listtype, n, L) + P("r"), S)
        add("letzteN-value" + tag, "duden letzteN %s %d" % (el, n), "Die %s r ist die letzten %d Elemente von (%s).\n" % (k.listtype, n, L) + P("r"), S)
    if only_new:
        return
    add("anfuegen" + tag, "duden anfuegen %s %d" % (el, ee), decl + "Füge %s an l an.\n" % E + P("l"), S)
    add("anfuegenListe" + tag, "duden anfuegenListe %s %s" % (el, eo), decl + "Füge o an l an.\n" + P("l") + P("o"), S, same_o)
    add("anfuegenListe-selbst" + tag, "duden anfuegenListe %s %s" % (el, el), decl + "Füge l an l an.\n" + P("l"), S)
    add("voranstellen" + tag, "duden voranstellen %s %d" % (el, ee), decl + "Stelle %s vor l.\n" % E + P("l"), S)
    add("fuelle" + tag, "duden fuelle %s %d" % (el, ee), decl + "Fülle l mit %s.\n" % E + P("l"), S)
    add("indexVon" + tag, "duden indexVon %s %d" % (el, ee), decl + p_scalar("der Index von %s in l" % E) + P("l"), show_raw, same_l)
    add("indexVon-value" + tag, "duden indexVon %s %d" % (el, ee), decl + p_scalar("der Index von %s in (%s)" % (E, L)), show_raw)
    add("enthaelt" + tag, "duden enthaelt %s %d" % (el, ee), decl + p_bool("l %s enthält" % E) + p_bool("l %s nicht enthält" % E),
        lambda x: show_bool(x) + show_bool("0" if x == "1" else "1"))
    add("leer" + tag, "duden leer %s" % el, decl + p_bool("l leer ist") + p_bool("l nicht leer ist"), lambda x: show_bool(x) + show_bool("0" if x == "1" else "1"))
    add("gespiegelt" + tag, "duden gespiegelt %s" % el, decl + "Die %s r ist l gespiegelt.\n" % k.listtype + P("r") + P("l"), S, same_l)
    for i in sorted({1 + rng.below(len(l) + 1), len(l) + 1}):
        add("einfuegen" + tag, "duden einfuegen %s %d %d" % (el, i, ee), decl + "Setze %s an die Stelle %d von l.\n" % (E, i) + P("l"), S)
    if l:
        i = 1 + rng.below(len(l))
        add("loesche" + tag, "duden loesche %s %d" % (el, i), decl + "Lösche das Element an der Stelle %d aus l.\n" % i + P("l"), S)
        a = 1 + rng.below(len(l))
        b = a + rng.below(len(l) - a + 1)
        add("loescheBereich" + tag, "duden loescheBereich %s %d %d" % (el, a, b), decl + "Lösche alle Elemente von %d bis %d aus l.\n" % (a, b) + P("l"), S)
        n = 1 + rng.below(len(l))
        add("ersteN" + tag, "duden ersteN %s %d" % (el, n), decl + "Die %s r ist die ersten %d Elemente von l.\n" % (k.listtype, n) + P("r") + P("l"), S, same_l)
        add("letzteN" + tag, "duden letzteN %s %d" % (el, n), decl + "Die %s r ist die letzten %d Elemente von l.\n" % (k.listtype, n) + P("r") + P("l"), S, same_l)
    if k.key == "K":
        add("sortiert-K", "duden sortiert %s" % el, decl + "Die Kommazahlen Liste r ist l sortiert.\n" + P("r") + P("l"), S, same_l)
        add("sortiere-ref-K", "duden sortiert %s" % el, decl + "Sortiere l.\n" + P("l"), S)
        pos = [abs(v) + 2 for v in l[:4]]
        dk = "Die Kommazahlen Liste l ist %s.\n" % k.lit_list(pos)
        add("summeK-Listen", "duden summeK %s" % k.enc(l), decl + p_scalar("die Summe aller Kommazahlen in l"), show_raw)
        add("produktK-Listen", "duden produktK %s" % k.enc(pos), dk + p_scalar("das Produkt aller Kommazahlen in l"), show_raw)


def text_cases(rng, add):
    t, u = gen_text(rng), gen_text(rng)[:2]
    c = CHARS[rng.below(len(CHARS))]
    if t and rng.below(2):
        t = [c] * rng.below(3) + t + [c] * rng.below(3)
    T, U, C = lit_text(t), lit_text(u), lit_char(c)
    et, eu = enc_ints(t), enc_ints(u)
    td = "Der Text t ist %s.\nDer Text u ist %s.\nDer Buchstabe c ist %s.\n" % (T, U, C)
    same_t, same_u = show_text(et), show_text(eu)
    wr = "Schreibe t auf eine Zeile.\n"
    if t:
        add("ersterBuchstabe", "duden ersterBuchstabe %s" % et, td + p_scalar("der erste Buchstabe von t"), show_char)
        add("letzterBuchstabe", "duden letzterBuchstabe %s" % et, td + p_scalar("der letzte Buchstabe von t"), show_char)
        n = 1 + rng.below(len(t))
        add("nterBuchstabe", "duden nterBuchstabe %d %s" % (n, et), td + p_scalar("der %d. Buchstabe von t" % n) + p_scalar("der %d Buchstabe von t" % n),
            lambda x: show_char(x) * 2)
    for n in sorted(set([0, 1, rng.below(len(t) + 1), len(t), len(t) + 2, -1])):
        N = lit_int(n)
        add("entferneVorne", "duden entferneVorne %s %d" % (et, n), td + "Schreibe (t mit den ersten %s Buchstaben entfernt) auf eine Zeile.\n" % N + wr, show_text, same_t)
        add("entferneHinten", "duden entferneHinten %s %d" % (et, n), td + "Schreibe (t mit den letzten %s Buchstaben entfernt) auf eine Zeile.\n" % N + wr, show_text, same_t)
        add("entferneVorne-ref", "duden entferneVorne %s %d" % (et, n), td + "Entferne %s Buchstaben am Anfang von t.\n" % N + wr, show_text)
        add("entferneHinten-ref", "duden entferneHinten %s %d" % (et, n), td + "Entferne %s Buchstaben am Ende von t.\n" % N + wr, show_text)
    add("trimEnde-ref", "duden trimEnde %s %d" % (et, c), td + "Entferne alle c nach t.\n" + wr, show_text)
    add("beginntMitBuchstabe", "duden beginntMitBuchstabe %s %d" % (et, c), td + p_bool("c am Anfang von t steht") + p_bool("c nicht am Anfang von t steht"),
        lambda x: show_bool(x) + show_bool("0" if x == "1" else "1"))
    add("endetMitBuchstabe", "duden endetMitBuchstabe %s %d" % (et, c), td + p_bool("c am Ende von t steht"), show_bool)
    if t:
        # counting single letters as subtexts is where the non-overlapping count is the plain count
        add("anzahlNichtUeberlappend-1", "duden anzahlNichtUeberlappend %s %d" % (et, c),
            td + "Der Text v ist c als Text.\n" + p_scalar("die Anzahl der nicht überlappenden Subtexte v in t"), show_raw)
    add("textAnfuegen", "duden textAnfuegen %s %s" % (et, eu), td + "Füge u an t an.\n" + wr + "Schreibe u auf eine Zeile.\n", show_text, same_u)
    add("textAnfuegen-selbst", "duden textAnfuegen %s %s" % (et, et), td + "Füge t an t an.\n" + wr, show_text)
    add("buchstabeAnfuegen", "duden textAnfuegen %s %d" % (et, c), td + "Füge c an t an.\n" + wr, show_text)
    add("textVoranstellen", "duden textVoranstellen %s %s" % (et, eu), td + "Stelle u vor t.\n" + wr + "Schreibe u auf eine Zeile.\n", show_text, same_u)
    add("buchstabeVoranstellen", "duden textVoranstellen %s %d" % (et, c), td + "Stelle c vor t.\n" + wr, show_text)
    add("textLeeren", "duden leere %s" % et, td + "Leere t.\n" + wr, show_text)
    add("fuelleText", "duden fuelleText %s %d" % (et, c), td + "Fülle t mit c.\n" + wr, show_text)
    B = KINDS["B"]
    add("buchstaben-ref", "duden buchstaben %s" % et, td + "Die Buchstaben Liste r ist die Buchstaben in t.\n" + B.p_list("r") + wr, B.show, same_t)
    add("buchstaben-value", "duden buchstaben %s" % et, "Die Buchstaben Liste r ist die Buchstaben in %s.\n" % T + B.p_list("r"), B.show)
    add("buchstabenTexte-ref", "duden buchstabenTexte %s" % et, td + "Die Text Liste r ist die Buchstaben in t als Text Liste.\n" + p_textlist("r") + wr, show_textlist, same_t)
    add("buchstabenTexte-value", "duden buchstabenTexte %s" % et, "Die Text Liste r ist die Buchstaben in %s als Text Liste.\n" % T + p_textlist("r"), show_textlist)
    add("indexVonBuchstabe-ref", "duden indexVonBuchstabe %s %d" % (et, c), td + p_scalar("der Index von c in t") + wr, show_raw, same_t)
    add("indexVonBuchstabe-value", "duden indexVonBuchstabe %s %d" % (et, c), td + p_scalar("der Index von c in %s" % T), show_raw)
    add("textLeer-ref", "duden textLeer %s" % et, td + p_bool("t leer ist") + p_bool("t nicht leer ist"), lambda x: show_bool(x) + show_bool("0" if x == "1" else "1"))
    add("textLeer-value", "duden textLeer %s" % et, p_bool("%s leer ist" % T), show_bool)
    # case mapping on ASCII and the German letters (ß has no capital letter: not judged for `groß`)
    de = [x for x in t if x < 128] + [[0xE4, 0xF6, 0xFC, 0xC4, 0xD6, 0xDC][rng.below(6)] for _ in range(rng.below(3))]
    de = rng.shuffle(de)
    dd = "Der Text t ist %s.\n" % lit_text(de)
    ed = enc_ints(de)
    add("grossD", "duden grossD %s" % ed, dd + "Schreibe (t groß geschrieben) auf eine Zeile.\n" + wr, show_text, show_text(ed))
    add("grossD-ref", "duden grossD %s" % ed, dd + "Schreibe t groß.\n" + wr, show_text)
    dk = de + [0xDF] * rng.below(2)
    ek = enc_ints(dk)
    add("kleinD", "duden kleinD %s" % ek, "Der Text t ist %s.\n" % lit_text(dk) + "Schreibe (t klein geschrieben) auf eine Zeile.\n" + wr, show_text, show_text(ek))
    # joining other lists
    zl = gen_list(rng)
    add("verbindenZahl", "duden verbindenZahl %s %d" % (enc_ints(zl), c), "Die Zahlen Liste zl ist %s.\nDer Buchstabe c ist %s.\n" % (lit_list(zl), C) +
        "Schreibe (zl mit dem Trennzeichen c zum Text verbunden) auf eine Zeile.\n" + p_list("zl"), show_text, show_list(enc_ints(zl)))
    bl = B.gen(rng)
    add("verbindenBuchstabe", "duden verbindenBuchstabe %s %d" % (enc_ints(bl), c), "Die Buchstaben Liste bl ist %s.\nDer Buchstabe c ist %s.\n" % (B.lit_list(bl), C) +
        "Schreibe (bl mit dem Trennzeichen c zum Text verbunden) auf eine Zeile.\n", show_text)
    W = KINDS["W"]
    wl = W.gen(rng)
    add("verbindenWahr", "duden verbindenWahr %s %d" % (enc_ints(wl), c), "Die Wahrheitswert Liste wl ist %s.\nDer Buchstabe c ist %s.\n" % (W.lit_list(wl), C) +
        "Schreibe (wl mit dem Trennzeichen c zum Text verbunden) auf eine Zeile.\n", show_text)
    kl = KINDS["K"].gen(rng)
    kts = [[ord(x) for x in fmt_komma(v)] for v in kl]
    add("verbindenKommazahl", "duden verbinden %s %d" % (enc_texts(kts), c), "Die Kommazahlen Liste kl ist %s.\nDer Buchstabe c ist %s.\n" % (KINDS["K"].lit_list(kl), C) +
        "Schreibe (kl mit dem Trennzeichen c zum Text verbunden) auf eine Zeile.\n", show_text)
    add("aneinandergehaengt-ref", "duden aneinandergehaengt %s" % enc_ints(bl), "Die Buchstaben Liste bl ist %s.\n" % B.lit_list(bl) +
        "Schreibe (bl aneinandergehängt) auf eine Zeile.\n" + B.p_list("bl"), show_text, B.show(enc_ints(bl)))
    add("aneinandergehaengt-value", "duden aneinandergehaengt %s" % enc_ints(bl), "Schreibe ((%s) aneinandergehängt) auf eine Zeile.\n" % B.lit_list(bl), show_text)
    ts = [gen_text(rng)[:3] for _ in range(rng.below(4))]
    ts2 = [gen_text(rng)[:2] for _ in ts]
    tsd = "Die Text Liste tl ist %s.\nDie Text Liste ul ist %s.\n" % (lit_textlist(ts), lit_textlist(ts2))
    add("verketteTexte-ref", "duden verketteTexte %s" % enc_texts(ts), tsd + "Schreibe (alle Texte in tl aneinandergehängt) auf eine Zeile.\n" + p_textlist("tl"), show_text, show_textlist(enc_texts(ts)))
    add("verketteTexte-value", "duden verketteTexte %s" % enc_texts(ts), "Schreibe (alle Texte in (%s) aneinandergehängt) auf eine Zeile.\n" % lit_textlist(ts), show_text)
    add("elementweiseVerketten-ref", "duden elementweiseVerketten %s %s" % (enc_texts(ts), enc_texts(ts2)),
        tsd + "Die Text Liste r ist jeden Text aus tl mit ul verkettet.\n" + p_textlist("r") + p_textlist("tl") + p_textlist("ul"), show_textlist,
        show_textlist(enc_texts(ts)) + show_textlist(enc_texts(ts2)))
    add("elementweiseVerketten-value", "duden elementweiseVerketten %s %s" % (enc_texts(ts), enc_texts(ts2)),
        "Die Text Liste r ist jeden Text aus (%s) mit (%s) verkettet.\n" % (lit_textlist(ts), lit_textlist(ts2)) + p_textlist("r"), show_textlist)
    # Levenshtein: a text against an edited copy, both directions
    v = list(t)
    for _ in range(rng.below(3)):
        kind = rng.below(3)
        if kind == 0 and v:
            v[rng.below(len(v))] = CHARS[rng.below(len(CHARS))]
        elif kind == 1 and v:
            del v[rng.below(len(v))]
        else:
            v.insert(rng.below(len(v) + 1), CHARS[rng.below(len(CHARS))])
    t6, v6 = t[:6], v[:6]
    ld = "Der Text t ist %s.\nDer Text u ist %s.\n" % (lit_text(t6), lit_text(v6))
    add("levenshtein", "duden levenshtein %s %s" % (enc_ints(t6), enc_ints(v6)), ld + p_scalar("die Levenshtein-Distanz zwischen t und u") + p_scalar("wie ähnlich u und t sind"),
        lambda x: show_raw(x) * 2)
    # splitting at a set of letters
    m = [CHARS[rng.below(len(CHARS))] for _ in range(rng.below(3))] + [c] * rng.below(2)
    em = enc_ints(m)
    md = td + "Die Buchstaben Liste m ist %s.\n" % B.lit_list(m)
    add("spalteMenge-ref-ref", "duden spalteMenge %s %s" % (et, em), md + "Die Text Liste r ist t anhand der Spaltmenge m gespalten.\n" + p_textlist("r") + wr + B.p_list("m"),
        show_textlist, same_t + B.show(em))
    add("spalteMenge-value-ref", "duden spalteMenge %s %s" % (et, em), md + "Die Text Liste r ist %s anhand der Spaltmenge m gespalten.\n" % T + p_textlist("r"), show_textlist)
    add("spalteMenge-value-value", "duden spalteMenge %s %s" % (et, em), "Die Text Liste r ist %s anhand der Spaltmenge (%s) gespalten.\n" % (T, B.lit_list(m)) + p_textlist("r"), show_textlist)
    add("spalteMenge-text", "duden spalteMenge %s %s" % (et, em), "Die Text Liste r ist %s anhand der Spaltmenge %s gespalten.\n" % (T, lit_text(m)) + p_textlist("r"), show_textlist)
    # words
    blanks = [0x20, 0x20, 0x0A, 0x09, 0x0D]
    w = []
    for _ in range(rng.below(4)):
        w += [blanks[rng.below(len(blanks))] for _ in range(rng.below(3))] + [x for x in gen_text(rng)[:3] if x not in (0x20,)]
    w += [blanks[rng.below(len(blanks))] for _ in range(rng.below(2))]

    def lit_ws(cs):
        return '"%s"' % "".join({0x0A: "\\n", 0x09: "\\t", 0x0D: "\\r", 0x22: '\\"', 0x5C: "\\\\"}.get(x, chr(x)) for x in cs)
    ew = enc_ints(w)
    add("worte-ref", "duden worte %s" % ew, "Der Text t ist %s.\n" % lit_ws(w) + "Die Text Liste r ist die Worte in t.\n" + p_textlist("r") + p_bool("t gleich %s ist" % lit_ws(w)),
        show_textlist, "wahr\n")
    add("worte-value", "duden worte %s" % ew, "Die Text Liste r ist %s in Worte unterteilt.\n" % lit_ws(w) + p_textlist("r"), show_textlist)
    # bytes
    Y = "Schreibe \"[\".\nFür jeden Byte el in r, mache:\n\tSchreibe (el als Zahl).\n\tSchreibe \",\".\nSchreibe \"]\" auf eine Zeile.\n"
    add("bytes-ref", "duden bytes %s" % et, td + "Die Byte Liste r ist die Bytes von t.\n" + Y + wr, show_list, same_t)
    add("bytes-value", "duden bytes %s" % et, "Die Byte Liste r ist die Bytes von %s.\n" % T + Y, show_list)
    by = list("".join(chr(x) for x in t).encode("utf-8"))
    bylit = "eine leere Byte Liste" if not by else "eine Liste, die aus %s besteht" % ", ".join("(%d als Byte)" % x for x in by)
    add("vonBytes-ref", "duden vonBytes %s" % enc_ints(by), "Die Byte Liste r ist %s.\nSchreibe (die Bytes r als Text) auf eine Zeile.\n" % bylit + Y, show_text, show_list(enc_ints(by)))
    add("vonBytes-value", "duden vonBytes %s" % enc_ints(by), "Schreibe (die Bytes (%s) als Text) auf eine Zeile.\n" % bylit, show_text)
    # searching with a small alphabet (many partial matches)
    n = 3 + rng.below(7)
    t2 = [[0x61, 0x62, 0xE4][rng.below(3) if rng.below(4) == 0 else rng.below(2)] for _ in range(n)]
    u2 = [[0x61, 0x62, 0xE4][rng.below(3) if rng.below(4) == 0 else rng.below(2)] for _ in range(1 + rng.below(4))]
    if rng.below(2):
        st = rng.below(len(t2))
        u2 = t2[st:st + 1 + rng.below(4)]
    d2 = "Der Text t ist %s.\nDer Text u ist %s.\n" % (lit_text(t2), lit_text(u2))
    e2 = (enc_ints(t2), enc_ints(u2))
    add("indexVonText-ab", "duden indexVonText %s %s" % e2, d2 + p_scalar("der Index von u in t"), show_raw)
    add("enthaeltText-ab", "duden enthaeltText %s %s" % e2, d2 + p_bool("t u enthält"), show_bool)
    add("anzahlText-ab", "duden anzahlText %s %s" % e2, d2 + p_scalar("die Anzahl der Subtexte u in t"), show_raw)
    add("beginntMit-ab", "duden beginntMit %s %s" % e2, d2 + p_bool("u am Anfang von t steht"), show_bool)
    add("endetMit-ab", "duden endetMit %s %s" % e2, d2 + p_bool("u am Ende von t steht"), show_bool)
    add("finde-ab", "duden finde %s %s" % e2, d2 + "Die Zahlen Liste r ist alle Indizes vom Subtext u in t.\n" + p_list("r"), show_list)


def number_cases(rng, add):
    def addB(*a, **k):
        add(*a, head="B", **k)
    pool = [0, 1, -1, 2, 7, -7, 12, 18, 100, 360, 97, 2 ** 31]
    a, b, d = pool[rng.below(len(pool))], pool[rng.below(len(pool))], pool[rng.below(len(pool))]
    lo, hi = min(b, d), max(b, d)
    nd = "Die Zahl a ist %s.\nDie Zahl lo ist %s.\nDie Zahl hi ist %s.\n" % (lit_int(a), lit_int(lo), lit_int(hi))
    addB("clamp", "duden clamp %d %d %d" % (a, lo, hi), nd + p_scalar("a zwischen lo und hi"), show_raw)
    kp = [-20, -12, -8, -4, -1, 0, 1, 2, 4, 8, 12, 20, 22, 44]
    x, y, z = kp[rng.below(len(kp))], kp[rng.below(len(kp))], kp[rng.below(len(kp))]
    kd = "Die Kommazahl x ist %s.\nDie Kommazahl y ist %s.\nDie Kommazahl z ist %s.\n" % (lit_komma(x), lit_komma(y), lit_komma(z))
    addB("maxK", "duden maxK %d %d" % (x, y), kd + p_scalar("die größere Zahl von x und y"), show_raw)
    addB("minK", "duden minK %d %d" % (x, y), kd + p_scalar("die kleinere Zahl von x und y"), show_raw)
    addB("max3K", "duden max3K %d %d %d" % (x, y, z), kd + p_scalar("die größere Zahl von x, y und z"), show_raw)
    addB("min3K", "duden min3K %d %d %d" % (x, y, z), kd + p_scalar("die kleinere Zahl von x, y und z"), show_raw)
    klo, khi = min(y, z), max(y, z)
    addB("clampK", "duden clampK %d %d %d" % (x, klo, khi), kd + p_scalar("x zwischen %s und %s" % (lit_komma(klo), lit_komma(khi))), show_raw)
    addB("signK", "duden signK %d" % x, kd + p_scalar("das Vorzeichen von x"), show_raw)
    addB("truncK", "duden truncK %d" % x, kd + p_scalar("x trunkiert"), show_raw)
    addB("floorK", "duden floorK %d" % x, kd + p_scalar("x nach unten gerundet"), show_raw)
    addB("ceilK", "duden ceilK %d" % x, kd + p_scalar("x nach oben gerundet"), show_raw)
    for xe in (-12, -2, -8, 0, 16, 20):       # -1,5  -0,25  -1  0  2  2,5
        kde = "Die Kommazahl x ist %s.\n" % lit_komma(xe)
        addB("floorK-edge", "duden floorK %d" % xe, kde + p_scalar("x nach unten gerundet"), show_raw)
        addB("ceilK-edge", "duden ceilK %d" % xe, kde + p_scalar("x nach oben gerundet"), show_raw)
    if x % 8 != 4 and (x >= 0 or x < -4):
        addB("rundenK-0", "duden rundenK %d 0" % x, kd + p_scalar("x auf 0 Stellen gerundet"), show_raw)
    if x % 4 == 0 and (x >= 0 or x < -4):
        n = 1 + rng.below(2)
        addB("rundenK-n", "duden rundenK %d %d" % (x, n), kd + p_scalar("x auf %d Stellen gerundet" % n), show_raw)
    addB("quadrat", "duden quadrat %d" % x, kd + p_scalar("x zum quadrat") + p_scalar("x"), show_raw, fmt_komma(x) + "\n")
    addB("quadriere-ref", "duden quadrat %d" % x, kd + "Quadriere x.\n" + p_scalar("x"), show_raw)
    addB("ganzeZahl", "duden ganzeZahl %d" % x, kd + p_bool("x eine ganze Zahl ist") + p_bool("x keine ganze Zahl ist"), lambda v: show_bool(v) + show_bool("0" if v == "1" else "1"))
    addB("geradeZahl", "duden geradeZahl %d" % a, nd + p_bool("a eine gerade Zahl ist"), show_bool)
    addB("geradeKommazahl", "duden geradeKommazahl %d" % x, kd + p_bool("x eine gerade Zahl ist"), show_bool)
    f = rng.below(21)
    addB("fakultaet", "duden fakultaet %d" % f, p_scalar("%d Fakultät" % f) + p_scalar("%d!" % f), lambda v: show_raw(v) * 2)
    zt = [1, 2, 12, 97, 360, 1000, 49][rng.below(7)]
    addB("teiler", "duden teiler %d" % zt, "Die Zahlen Liste r ist alle Teiler von %d.\nSortiere r.\n" % zt + p_list("r"), show_list)
    ga, gb = abs(a) % 1000, abs(b) % 1000 + 1
    for na, nb in ((12, -18), (-12, 18), (-12, -18), (-5, 0), (0, -5), (4, -6)):
        addB("ggTZ-negative", "duden ggTZ %d %d" % (na, nb), p_scalar("der größte gemeinsame Teiler von %s und %s" % (lit_int(na), lit_int(nb))), show_raw)
        if na and nb:
            addB("kgVZ-negative", "duden kgVZ %d %d" % (na, nb), p_scalar("das kleinste gemeinsame Vielfache von %s und %s" % (lit_int(na), lit_int(nb))), show_raw)
    addB("ggTZ", "duden ggTZ %d %d" % (ga, gb), p_scalar("der größte gemeinsame Teiler von %d und %d" % (ga, gb)), show_raw)
    addB("ggTZ-0", "duden ggTZ %d %d" % (gb, 0), p_scalar("der größte gemeinsame Teiler von %d und 0" % gb), show_raw)
    addB("kgVZ", "duden kgVZ %d %d" % (ga, gb), p_scalar("das kleinste gemeinsame Vielfache von %d und %d" % (ga, gb)), show_raw)
    addB("million", "duden million %s" % a, nd + p_scalar("a Million"), show_raw)
    addB("dutzend", "duden dutzend %s" % a, nd + p_scalar("a Dutzend"), show_raw)
    names = {2: "Halbe", 3: "Drittel", 4: "Viertel", 5: "Fünftel", 6: "Sechstel", 7: "Siebtel", 8: "Achtel", 9: "Neuntel", 10: "Zehntel", 11: "Elftel", 12: "Zwölftel"}
    small = [0, 1, -1, 3, 5, -7, 12, 100][rng.below(8)]
    for dn in (2, 4, 8):
        addB("bruch-%d" % dn, "duden bruch %d %d" % (small, dn), "Die Zahl a ist %s.\n" % lit_int(small) + p_scalar("a %s" % names[dn]), show_raw)
    dn = [3, 5, 6, 7, 9, 10, 11, 12][rng.below(8)]
    mult = dn * (rng.below(9) - 4)
    addB("bruch-%d" % dn, "duden bruch %d %d" % (mult, dn), "Die Zahl a ist %s.\n" % lit_int(mult) + p_scalar("a %s" % names[dn]), show_raw)
    hx = [rng.below(16) for _ in range(1 + rng.below(8))]
    ht = [ord("0123456789abcdef"[v]) if rng.below(2) else ord("0123456789ABCDEF"[v]) for v in hx]
    addB("hexZuZahl", "duden hexZuZahl %s" % enc_ints(ht), p_scalar("die Hexadezimalzahl %s" % lit_text(ht)), show_raw)
    hz = [0, 1, 15, 16, 255, 4096, 2 ** 31, -1, -255, 48879, 2 ** 62 + 5][rng.below(11)]
    addB("zahlZuHex", "duden zahlZuHex %d" % hz, p_scalar("%s in Hexadezimal" % lit_int(hz)), show_text)
    if hz >= 0:
        addB("hex-hin-zurueck", "duden leere -", p_scalar("die Hexadezimalzahl (%d in Hexadezimal)" % hz), lambda v: "%d\n" % hz)
    ta, tb = pool[rng.below(len(pool))], pool[rng.below(len(pool))]
    addB("tausche", "duden tausche %d %d" % (ta, tb), "Die Zahl a ist %s.\nDie Zahl b ist %s.\nTausche a und b.\nSchreibe a.\nSchreibe \",\".\nSchreibe b auf eine Zeile.\n" % (lit_int(ta), lit_int(tb)), show_raw)
    K = KINDS["K"]
    lt = K.gen(rng)
    if len(lt) >= 2:
        i1, i2 = 1 + rng.below(len(lt)), 1 + rng.below(len(lt))
        want = list(lt)
        want[i1 - 1], want[i2 - 1] = want[i2 - 1], want[i1 - 1]
        addB("tausche-K", "duden leere -", "Die Kommazahlen Liste l ist %s.\nTausche (l an der Stelle %d) und (l an der Stelle %d).\n" % (K.lit_list(lt), i1, i2) + K.p_list("l"),
             lambda v, want=want: K.show(K.enc(want)))
    # lists of numbers
    l1 = gen_list(rng)
    l2 = [[1, 2, 4, 8, 2, 1][rng.below(6)] for _ in l1]
    l1s = [v % 1000 for v in l1]
    if l1:
        dl = "Die Zahlen Liste l ist %s.\nDie Zahlen Liste o ist %s.\n" % (lit_list(l1s), lit_list(l2))
        both = show_list(enc_ints(l1s)) + show_list(enc_ints(l2))
        addB("elementweiseDifferenz", "duden elementweiseDifferenz %s %s" % (enc_ints(l1s), enc_ints(l2)),
             dl + "Die Zahlen Liste r ist jedes Element aus l mit o subtrahiert.\n" + p_list("r") + p_list("l") + p_list("o"), show_list, both)
        addB("elementweiseQuotient", "duden elementweiseQuotient %s %s" % (enc_ints(l1s), enc_ints(l2)),
             dl + "Die Kommazahlen Liste r ist jedes Element aus l mit o dividiert.\n" + p_klist("r") + p_list("l") + p_list("o"), show_rats, both)
    k1 = K.gen(rng)
    k2 = [K.pool[rng.below(len(K.pool))] for _ in k1]
    if k1:
        dk = "Die Kommazahlen Liste l ist %s.\nDie Kommazahlen Liste o ist %s.\n" % (K.lit_list(k1), K.lit_list(k2))
        ek = (enc_ints(k1), enc_ints(k2))
        bothk = K.show(ek[0]) + K.show(ek[1])
        addB("elementweiseSummeK", "duden elementweiseSummeK %s %s" % ek, dk + "Die Kommazahlen Liste r ist jede Kommazahl aus l mit o addiert.\n" + p_klist("r") + p_klist("l") + p_klist("o"), show_rats, bothk)
        addB("elementweiseDifferenzK", "duden elementweiseDifferenzK %s %s" % ek, dk + "Die Kommazahlen Liste r ist jede Kommazahl aus l mit o subtrahiert.\n" + p_klist("r"), show_rats)
        if all(v != 0 for v in k1 + k2):
            addB("elementweiseProduktK", "duden elementweiseProduktK %s %s" % ek, dk + "Die Kommazahlen Liste r ist jede Kommazahl aus l mit o multipliziert.\n" + p_klist("r"), show_rats)
    g1, g2 = 8 * rng.below(4), 8 * rng.below(7)
    gn = [2, 3, 5][rng.below(3)]
    addB("logspace", "duden logspace %d %d %d" % (g1, g2, gn),
         "Die Kommazahlen Liste r ist eine logarithmische Kommazahlen Liste von %s bis %s mit %d Elementen.\n" % (lit_komma(g1), lit_komma(g2), gn) + p_klist("r"), show_rats)
    a3 = rng.below(7) - 3
    b3 = a3 - rng.below(6)
    addB("absteigend", "duden absteigend %d %d" % (a3, b3), "Die Zahlen Liste r ist eine absteigende Zahlen Liste von %s bis %s.\n" % (lit_int(a3), lit_int(b3)) + p_list("r"), show_list)
    ls, le, ln = kp[rng.below(len(kp))], kp[rng.below(len(kp))], [2, 3, 5, 9][rng.below(4)]
    addB("linspace", "duden linspace %d %d %d" % (ls, le, ln),
         "Die Kommazahlen Liste r ist eine lineare Kommazahlen Liste von %s bis %s mit %d Elementen.\n" % (lit_komma(ls), lit_komma(le), ln) + p_klist("r"), show_rats)
    # statistics
    zl = gen_list(rng)
    if zl:
        zd = "Die Zahlen Liste l ist %s.\n" % lit_list(zl)
        same = show_list(enc_ints(zl))
        addB("hoechsteZ", "duden hoechsteZ %s" % enc_ints(zl), zd + p_scalar("der höchste Wert aus l") + p_scalar("die größte Zahl in l") + p_list("l"), lambda v: show_raw(v) * 2, same)
        addB("kleinsteZ", "duden kleinsteZ %s" % enc_ints(zl), zd + p_scalar("der kleinste Wert aus l") + p_scalar("die kleinste Zahl in l") + p_list("l"), lambda v: show_raw(v) * 2, same)
    n = [1, 2, 3, 4, 4, 5, 8][rng.below(7)]
    kpool = [-12, -4, 0, 4, 8, 8, 12, 20, 20, 36]
    kl = [kpool[rng.below(len(kpool))] for _ in range(n)]
    ks = sorted(kl)
    xk = kpool[rng.below(len(kpool))]
    yk = xk + 4 * rng.below(5)
    ekl, eks = enc_ints(kl), enc_ints(ks)
    sd = "Die Kommazahlen Liste l ist %s.\nDie Kommazahlen Liste s ist %s.\n" % (K.lit_list(kl), K.lit_list(ks))
    same = K.show(ekl)
    X, Y = lit_komma(xk), lit_komma(yk)
    addB("hoechsteK", "duden hoechsteK %s" % ekl, sd + p_scalar("der höchste Wert aus l") + p_scalar("die größte Kommazahl in l") + K.p_list("l"), lambda v: show_raw(v) * 2, same)
    addB("kleinsteK", "duden kleinsteK %s" % ekl, sd + p_scalar("der kleinste Wert aus l") + p_scalar("die kleinste Kommazahl in l"), lambda v: show_raw(v) * 2)
    addB("zwischen", "duden zwischen %d %d %s" % (xk, yk, ekl), sd + p_scalar("wie viel Prozent der Zahlen aus l zwischen %s und %s sind" % (X, Y)), show_raw)
    addB("absoluteHaeufigkeit", "duden absoluteHaeufigkeit %s %d" % (ekl, xk), sd + p_scalar("die absolute Häufigkeit von %s in l" % X), show_raw)
    addB("relativeHaeufigkeit", "duden relativeHaeufigkeit %s %d" % (ekl, xk), sd + p_scalar("die relative Häufigkeit von %s in l" % X) +
         p_scalar("wie viel Prozent der Zahlen aus l gleich %s sind" % X), lambda v: show_raw(v) * 2)
    if True:
        addB("mindestens", "duden mindestens %d %s" % (xk, ekl), sd + p_scalar("wie viel Prozent der Zahlen aus l mindestens %s sind" % X), show_raw)
        addB("hoechstens", "duden hoechstens %d %s" % (xk, ekl), sd + p_scalar("wie viel Prozent der Zahlen aus l höchstens %s sind" % X), show_raw)
    addB("summeK", "duden summeK %s" % ekl, sd + p_scalar("die Summe aller zahlen aus l") + K.p_list("l"), show_raw, same)
    addB("mittelwert", "duden mittelwert %s" % ekl, sd + p_scalar("der Mittelwert von l") + p_scalar("das arithmetische Mittel von l"), lambda v: show_raw(v) * 2)
    addB("median", "duden median %s" % eks, sd + p_scalar("der Median von s") + p_scalar("der Zentralwert von s"), lambda v: show_raw(v) * 2)
    addB("modalwert", "duden modalwert %s" % ekl, sd + "Die Kommazahlen Liste r ist der Modalwert von l.\n" + K.p_list("r") + K.p_list("l"), show_rats, same)
    for pq in (2, 4, 6, 1, 3):
        npx = n * pq
        if 0 < npx < 8 * n and not (npx % 8 == 0 and npx // 8 >= n):
            addB("quantil", "duden quantil %s %d" % (eks, pq), sd + p_scalar("das %s-Quantil von s" % lit_komma(pq).strip("()")), show_raw)
    k2 = [kpool[rng.below(len(kpool))] for _ in range(n)]
    # (only lists whose mean is a dyadic rational: otherwise the library's intermediate mean is already rounded)
    if n >= 2 and (n in (2, 4, 8) or sum(kl) % n == 0):
        addB("varianz", "duden varianz %s" % ekl, sd + p_scalar("die Varianz von l"), show_raw)
        addB("standardabweichung", "duden standardabweichung %s" % ekl, sd + p_scalar("die Standardabweichung von l"), show_raw)
    if n >= 2 and (n in (2, 4, 8) or (sum(kl) % n == 0 and sum(k2) % n == 0)):
        addB("kovarianz", "duden kovarianz %s %s" % (ekl, enc_ints(k2)), sd + "Die Kommazahlen Liste o ist %s.\n" % K.lit_list(k2) + p_scalar("die empirische Kovarianz von l und o"), show_raw)
    addB("spannweite", "duden spannweite %s" % ekl, sd + p_scalar("die Spannweite von l"), show_raw)
    if n >= 2:
        addB("interquartilabstand", "duden interquartilabstand %s" % eks, sd + p_scalar("der Interquartilabstand von s"), show_raw)


ZPRED = [("istLeer", "ein leeres Zeichen"), ("istGross", "ein großer Buchstabe"), ("istKlein", "ein kleiner Buchstabe"), ("istLeerzeichen", "ein Leerzeichen"),
         ("istZiffer", "eine Ziffer"), ("istKontroll", "ein Kontrollzeichen"), ("istLateinisch", "ein lateinischer Buchstabe"),
         ("istLateinischOderZahl", "ein lateinischer Buchstabe oder eine Zahl"), ("istDeutsch", "ein deutscher Buchstabe"),
         ("istDeutschOderZahl", "ein deutscher Buchstabe oder eine Zahl")]
UMLAUTE = [196, 214, 220, 228, 246, 252, 223]


def cases_once(add):
    """tables that do not depend on the seed: every ASCII character and the German letters through Duden/Zeichen,
    constants, documented examples"""
    def addB(*a, **k):
        add(*a, head="B", **k)
    codes = list(range(0, 128)) + UMLAUTE
    for name, phrase in ZPRED:
        cs = list(codes)
        lst = "Die Zahlen Liste codes ist eine Liste, die aus %s besteht.\n" % ", ".join(str(x) for x in cs)
        neg = phrase.replace("ein ", "kein ", 1).replace("eine ", "keine ", 1) if "oder" not in phrase else "nicht " + phrase
        src = lst + "Für jede Zahl i in codes, mache:\n\tDer Buchstabe b ist i als Buchstabe.\n\tWenn b %s ist, Schreibe \"1\".\n\tSonst Schreibe \"0\".\nSchreibe \"\" auf eine Zeile.\n" % phrase
        src += "Für jede Zahl i in codes, mache:\n\tDer Buchstabe b ist i als Buchstabe.\n\tWenn b %s ist, Schreibe \"0\".\n\tSonst Schreibe \"1\".\nSchreibe \"\" auf eine Zeile.\n" % neg
        addB("zeichen-" + name, "duden ztab %s %s" % (name, enc_ints(cs)), src, lambda v: (v + "\n") * 2)
    for name, phrase, cs in (("gross", "als großer Buchstabe", list(range(0, 128)) + UMLAUTE[:-1]), ("klein", "als kleiner Buchstabe", codes)):
        lst = "Die Zahlen Liste codes ist eine Liste, die aus %s besteht.\n" % ", ".join(str(x) for x in cs)
        src = lst + "Schreibe \"[\".\nFür jede Zahl i in codes, mache:\n\tDer Buchstabe b ist i als Buchstabe.\n\tSchreibe ((b %s) als Zahl).\n\tSchreibe \",\".\nSchreibe \"]\" auf eine Zeile.\n" % phrase
        addB("zeichen-" + name, "duden zmap %s %s" % (name, enc_ints(cs)), src, show_list)
    src = "Schreibe \"[\".\nFür jede Zahl i von 0 bis 127, mache:\n\tSchreibe ((der ASCII Zeichen mit der Nummer i) als Zahl).\n\tSchreibe \",\".\nSchreibe \"]\" auf eine Zeile.\n"
    addB("asciiZeichen", "duden leere -", src, lambda v: show_list(enc_ints(list(range(128)))))
    for x, y in ((0x61, 0x62), (0x62, 0x61), (0x61, 0x61), (0x20, 0x7E), (0x41, 0x61), (0x7A, 0x30)):
        cd = "Der Buchstabe x ist %d als Buchstabe.\nDer Buchstabe y ist %d als Buchstabe.\n" % (x, y)
        addB("asciiGroesser", "duden asciiGroesser %d %d" % (x, y), cd + "Wenn der ASCII-Wert von x größer als y, Schreibe \"1\" auf eine Zeile.\nSonst Schreibe \"0\" auf eine Zeile.\n", show_raw)
        addB("asciiKleiner", "duden asciiKleiner %d %d" % (x, y), cd + "Wenn der ASCII-Wert von x kleiner als y, Schreibe \"1\" auf eine Zeile.\nSonst Schreibe \"0\" auf eine Zeile.\n", show_raw)
    consts = [("ein Leerzeichen", 32), ("eine neue Zeile", 10), ("ein Wagenrücklauf", 13), ("ein Tabulator", 9), ("ein Rückstrich", 92), ("ein Anfühungszeichen", 34), ("ein Apostroph", 39)]
    addB("zeichen-konstanten", "duden leere -", "".join(p_scalar("%s als Zahl" % ph) for ph, _ in consts), lambda v: "".join("%d\n" % c for _, c in consts))
    def show_frac(v):
        from fractions import Fraction
        n, d = v.split("/")
        return "%.16g\n" % float(Fraction(int(n), int(d)))
    for key, phrase in (("maxKommazahl", "der maximale Wert einer Kommazahl"), ("minKommazahl", "der minimale Wert einer Kommazahl"),
                        ("epsilonPos", "der kleinste positive Wert einer Kommazahl"), ("epsilonNeg", "der kleinste negative Wert einer Kommazahl")):
        addB("konstante-" + key, "duden konstante " + key, p_scalar(phrase), show_frac)
    addB("maxZahl", "duden maxZahl", p_scalar("der maximale Wert einer Zahl"), show_raw)
    addB("eins", "duden leere -", p_scalar("eins") + p_scalar("Eins"), lambda v: "1\n1\n")
    add("leererText", "duden leere -", "Der Text t ist ein leerer Text.\nSchreibe \"<\".\nSchreibe t.\nSchreibe \">\" auf eine Zeile.\n", lambda v: "<>\n")
    # sorting long lists, among them permutations that drive the explicit stack of pending ranges of the iterative quicksort
    # beyond its initial capacity of 50 ranges (chosen by simulating the algorithm, vlib/qsim.py); the stack is a global of the
    # module and keeps its size from one call to the next
    from .. import qsim
    for shape, l, depth in qsim.stress_lists():
        add("sortiert-lang:%s:depth-%d" % (shape, depth), "duden sortiert %s" % enc_ints(l), "Die Zahlen Liste l ist %s.\nDie Zahlen Liste r ist l sortiert.\n" % lit_list(l) + p_list("r"), show_list)
        add("sortiere-ref-lang:%s:depth-%d" % (shape, depth), "duden sortiert %s" % enc_ints(l), "Die Zahlen Liste l ist %s.\nSortiere l.\n" % lit_list(l) + p_list("l"), show_list)
    # documented examples
    for a, b in (("Bar", "Bar"), ("Bar", "Bir"), ("Bar", "Bier"), ("Bar", "Ba"), ("kitten", "sitting"), ("", "abc"), ("abc", ""), ("", "")):
        ac, bc = [ord(x) for x in a], [ord(x) for x in b]
        add("levenshtein-doc", "duden levenshtein %s %s" % (enc_ints(ac), enc_ints(bc)), p_scalar("die Levenshtein-Distanz zwischen %s und %s" % (lit_text(ac), lit_text(bc))), show_raw)
    for t in ("0", "12", "-5", "+7", "-", "+", "", "abc", "a1", "-a", "€1", "007", "-0", "9223372036854775807"):
        tc = [ord(x) for x in t]
        add("textIstZahl", "duden textIstZahl %s" % enc_ints(tc), "Der Text t ist %s.\n" % lit_text(tc) + p_bool("t in eine Zahl umgewandelt werden kann") +
            p_bool("%s in eine Zahl umgewandelt werden kann" % lit_text(tc)) + p_bool("t nicht in eine Zahl umgewandelt werden kann"),
            lambda v: show_bool(v) * 2 + show_bool("0" if v == "1" else "1"))
    for t, u in (("abab", "ab"), ("abxxab", "ab"), ("xxxx", "ab"), ("aaaa", "aa"), ("ab", "ab"), ("a", "ab"),
                 ("xabab", "ab"), ("a-b", "-b"), ("-bbbb", "bb"), ("ba--a--aaa", "a--"), ("aaaaa", "aa"), ("xaax", "aa")):
        tc, uc = [ord(x) for x in t], [ord(x) for x in u]
        add("anzahlNichtUeberlappend", "duden anzahlNichtUeberlappend %s %s" % (enc_ints(tc), enc_ints(uc)),
            p_scalar("die Anzahl der nicht überlappenden Subtexte %s in %s" % (lit_text(uc), lit_text(tc))), show_raw)
    # the word separators of the documentation, among them the characters 13 and 14
    add("worte-14", "duden worte 97,14,98,32,99,13,100", "Der Text t ist \"a\" verkettet mit (14 als Buchstabe) verkettet mit \"b c\" verkettet mit (13 als Buchstabe) verkettet mit \"d\".\n" +
        "Die Text Liste r ist die Worte in t.\n" + p_textlist("r"), show_textlist)
    add("spalteMenge-doc", "duden spalteMenge 72,97,108,108,111,10,13,87,101,108,116,10,33 10,13",
        "Die Text Liste r ist \"Hallo\\n\\rWelt\\n!\" anhand der Spaltmenge \"\\n\\r\" gespalten.\n" + p_textlist("r"), show_textlist)
    K = KINDS["K"]
    for l in ([8, 24], [8, 16, 24], [0, 0, 32, 32, 16], [16, 16, 16], [8, 8, 8, 16, 24, 24, 24, 32, 40, 40]):
        sd = "Die Kommazahlen Liste l ist %s.\n" % K.lit_list(l)
        addB("varianz-fest", "duden varianz %s" % enc_ints(l), sd + p_scalar("die Varianz von l") + p_scalar("der Varianz von l"), lambda v: show_raw(v) * 2)
        addB("standardabweichung-fest", "duden standardabweichung %s" % enc_ints(l), sd + p_scalar("die Standardabweichung von l"), show_raw)


    for l1, l2 in (([8, 16, 24], [16, 32, 48]), ([8, 16, 24], [48, 32, 16]), ([0, 0, 32, 32, 16], [0, 32, 0, 32, 16]), ([0, 0, 32, 32, 16], [0, 0, 32, 32, 16])):
        sd = "Die Kommazahlen Liste l ist %s.\nDie Kommazahlen Liste o ist %s.\n" % (K.lit_list(l1), K.lit_list(l2))
        e12 = (enc_ints(l1), enc_ints(l2))
        addB("kovarianz-fest", "duden kovarianz %s %s" % e12, sd + p_scalar("die empirische Kovarianz von l und o"), show_raw)
        addB("korrelation-fest", "duden korrelation %s %s" % e12, sd + p_scalar("der empirische Korrelationskoeffizient von l und o"), show_raw)
        addB("bestimmtheitsmass-fest", "duden bestimmtheitsmass %s %s" % e12, sd + p_scalar("der Bestimmtheitsmaß von l und o"), show_raw)


def cases_more(rng, it, add):
    generic_list_cases(rng, add, KINDS["Z"], only_new=True)
    generic_list_cases(rng, add, KINDS[["T", "B", "K", "W"][it % 4]])
    text_cases(rng, add)
    number_cases(rng, add)
    iter_cases(rng, add)


def cases(rng, per_op):
    """yields (op name, model request, DDP source printing the observation, decoder for the model's answer)"""
    out = []

    def add(op, req, src, show, unchanged=None, head="A"):
        out.append((op, req, src, show, unchanged, head))
    cases_once(add)
    for it in range(per_op):
        cases_more(rng, it, add)
        l, o = gen_list(rng), gen_list(rng)
        e = [0, 2, 7, -1][rng.below(4)]
        L, O = lit_list(l), lit_list(o)
        decl = "Die Zahlen Liste l ist %s.\nDie Zahlen Liste o ist %s.\n" % (L, O)
        # Referenz variants mutate l; the value argument o must stay what it was
        add("anfuegen", "duden anfuegen %s %d" % (enc_ints(l), e), decl + "Füge %s an l an.\n" % lit_int(e) + p_list("l"), show_list)
        add("anfuegenListe", "duden anfuegenListe %s %s" % (enc_ints(l), enc_ints(o)), decl + "Füge o an l an.\n" + p_list("l") + p_list("o"), show_list, show_list(enc_ints(o)))
        add("voranstellen", "duden voranstellen %s %d" % (enc_ints(l), e), decl + "Stelle %s vor l.\n" % lit_int(e) + p_list("l"), show_list)
        add("fuelle", "duden fuelle %s %d" % (enc_ints(l), e), decl + "Fülle l mit %s.\n" % lit_int(e) + p_list("l"), show_list)
        for i in sorted({1 + rng.below(len(l) + 1), len(l) + 1}):
            add("einfuegen", "duden einfuegen %s %d %d" % (enc_ints(l), i, e), decl + "Setze %s an die Stelle %d von l.\n" % (lit_int(e), i) + p_list("l"), show_list)
        if l:
            i = 1 + rng.below(len(l))
            add("loesche", "duden loesche %s %d" % (enc_ints(l), i), decl + "Lösche das Element an der Stelle %d aus l.\n" % i + p_list("l"), show_list)
            a = 1 + rng.below(len(l))
            b = a + rng.below(len(l) - a + 1)
            add("loescheBereich", "duden loescheBereich %s %d %d" % (enc_ints(l), a, b), decl + "Lösche alle Elemente von %d bis %d aus l.\n" % (a, b) + p_list("l"), show_list)
            n = 1 + rng.below(len(l))
            add("ersteN", "duden ersteN %s %d" % (enc_ints(l), n), decl + "Die Zahlen Liste r ist die ersten %d Elemente von l.\n" % n + p_list("r") + p_list("l"), show_list, show_list(enc_ints(l)))
            add("letzteN", "duden letzteN %s %d" % (enc_ints(l), n), decl + "Die Zahlen Liste r ist die letzten %d Elemente von l.\n" % n + p_list("r") + p_list("l"), show_list, show_list(enc_ints(l)))
        add("indexVon", "duden indexVon %s %d" % (enc_ints(l), e), decl + p_scalar("der Index von %s in l" % lit_int(e)) + p_list("l"), lambda x: x + "\n", show_list(enc_ints(l)))
        add("indexVon-value", "duden indexVon %s %d" % (enc_ints(l), e), decl + p_scalar("der Index von %s in (l verkettet mit o)" % lit_int(e)).replace("(l verkettet mit o)", "(%s)" % L), lambda x: x + "\n")
        add("enthaelt", "duden enthaelt %s %d" % (enc_ints(l), e), decl + p_scalar("l %s enthält" % lit_int(e)), show_bool)
        add("leer", "duden leer %s" % enc_ints(l), decl + p_scalar("l leer ist"), show_bool)
        add("gespiegelt", "duden gespiegelt %s" % enc_ints(l), decl + "Die Zahlen Liste r ist l gespiegelt.\n" + p_list("r") + p_list("l"), show_list, show_list(enc_ints(l)))
        small = [v for v in l if abs(v) < 1000]
        add("summe", "duden summe %s" % enc_ints(small), "Die Zahlen Liste l ist %s.\n" % lit_list(small) + p_scalar("die Summe aller Elemente in l"), lambda x: x + "\n")
        add("produkt", "duden produkt %s" % enc_ints(small[:4]), "Die Zahlen Liste l ist %s.\n" % lit_list(small[:4]) + p_scalar("das Produkt aller Elemente in l"), lambda x: x + "\n")
        m = min(len(l), len(o))
        if m:
            a2, b2 = [v % 1000 for v in l[:m]], [v % 1000 for v in o[:m]]
            d2 = "Die Zahlen Liste l ist %s.\nDie Zahlen Liste o ist %s.\n" % (lit_list(a2), lit_list(b2))
            add("elementweiseSumme", "duden elementweiseSumme %s %s" % (enc_ints(a2), enc_ints(b2)), d2 + "Die Zahlen Liste r ist jedes Element aus l mit o addiert.\n" + p_list("r"), show_list)
            add("elementweiseProdukt", "duden elementweiseProdukt %s %s" % (enc_ints(a2), enc_ints(b2)), d2 + "Die Zahlen Liste r ist jedes Element aus l mit o multipliziert.\n" + p_list("r"), show_list)
        a3 = rng.below(7) - 3
        b3 = a3 + rng.below(6)
        add("aufsteigend", "duden aufsteigend %d %d" % (a3, b3), "Die Zahlen Liste r ist eine aufsteigende Zahlen Liste von %s bis %s.\n" % (lit_int(a3), lit_int(b3)) + p_list("r"), show_list)
        add("sortiert", "duden sortiert %s" % enc_ints(l), decl + "Die Zahlen Liste r ist l sortiert.\n" + p_list("r") + p_list("l"), show_list, show_list(enc_ints(l)))
        add("sortiere-ref", "duden sortiert %s" % enc_ints(l), decl + "Sortiere l.\n" + p_list("l"), show_list)
        # texts
        t, u = gen_text(rng), gen_text(rng)[:2]
        c = CHARS[rng.below(len(CHARS))]
        if t and rng.below(2):
            t = [c] * rng.below(3) + t + [c] * rng.below(3)
        T, U, C = lit_text(t), lit_text(u), lit_char(c)
        td = "Der Text t ist %s.\nDer Text u ist %s.\nDer Buchstabe c ist %s.\n" % (T, U, C)
        add("trimAnfang", "duden trimAnfang %s %d" % (enc_ints(t), c), td + "Schreibe (t mit allen c davor entfernt) auf eine Zeile.\nSchreibe t auf eine Zeile.\n", show_text, show_text(enc_ints(t)))
        add("trimEnde", "duden trimEnde %s %d" % (enc_ints(t), c), td + "Schreibe (t mit allen c danach entfernt) auf eine Zeile.\n", show_text)
        add("trim", "duden trim %s %d" % (enc_ints(t), c), td + "Schreibe (t mit allen c davor und danach entfernt) auf eine Zeile.\n", show_text)
        add("trim-ref", "duden trim %s %d" % (enc_ints(t), c), td + "Entferne alle c vor und nach t.\nSchreibe t auf eine Zeile.\n", show_text)
        add("trimAnfang-ref", "duden trimAnfang %s %d" % (enc_ints(t), c), td + "Entferne alle c vor t.\nSchreibe t auf eine Zeile.\n", show_text)
        add("anzahlBuchstabe", "duden anzahlBuchstabe %s %d" % (enc_ints(t), c), td + p_scalar("die Anzahl der c Buchstaben in t"), lambda x: x + "\n")
        add("enthaeltBuchstabe", "duden enthaeltBuchstabe %s %d" % (enc_ints(t), c), td + p_scalar("t c enthält"), show_bool)
        if t and u:
            add("beginntMit", "duden beginntMit %s %s" % (enc_ints(t), enc_ints(u)), td + p_scalar("u am Anfang von t steht"), show_bool)
            add("endetMit", "duden endetMit %s %s" % (enc_ints(t), enc_ints(u)), td + p_scalar("u am Ende von t steht"), show_bool)
            add("anzahlText", "duden anzahlText %s %s" % (enc_ints(t), enc_ints(u)), td + p_scalar("die Anzahl der Subtexte u in t"), lambda x: x + "\n")
            add("enthaeltText", "duden enthaeltText %s %s" % (enc_ints(t), enc_ints(u)), td + p_scalar("t u enthält"), show_bool)
            add("indexVonText", "duden indexVonText %s %s" % (enc_ints(t), enc_ints(u)), td + p_scalar("der Index von u in t"), lambda x: x + "\n")
        n2 = rng.below(10)
        add("polsterLinks", "duden polsterLinks %s %d %d" % (enc_ints(t), c, n2), td + "Schreibe (t mit %d c links gepolstert) auf eine Zeile.\nSchreibe t auf eine Zeile.\n" % n2, show_text, show_text(enc_ints(t)))
        add("polsterRechts", "duden polsterRechts %s %d %d" % (enc_ints(t), c, n2), td + "Schreibe (t mit %d c rechts gepolstert) auf eine Zeile.\n" % n2, show_text)
        add("spalte", "duden spalte %s %d" % (enc_ints(t), c), td + "Die Text Liste r ist t an c gespalten.\n" + p_textlist("r") + "Schreibe t auf eine Zeile.\n", show_textlist, show_text(enc_ints(t)))
        ts = [gen_text(rng)[:3] for _ in range(rng.below(4))]
        ts = [[x for x in w if x != 0x7C] for w in ts]
        add("verbinden", "duden verbinden %s %d" % (enc_texts(ts), c), "Die Text Liste tl ist %s.\nDer Buchstabe c ist %s.\n" % (lit_textlist(ts), C) +
            "Schreibe (tl mit dem Trennzeichen c zum Text verbunden) auf eine Zeile.\n", show_text)
        asc = [x for x in t if x < 128]
        add("gross", "duden gross %s" % enc_ints(asc), "Der Text t ist %s.\n" % lit_text(asc) + "Schreibe (t groß geschrieben) auf eine Zeile.\nSchreibe t auf eine Zeile.\n", show_text, show_text(enc_ints(asc)))
        add("klein-ref", "duden klein %s" % enc_ints(asc), "Der Text t ist %s.\n" % lit_text(asc) + "Schreibe t klein.\nSchreibe t auf eine Zeile.\n", show_text)
        v = list(t)
        if v and rng.below(2):
            v[rng.below(len(v))] = CHARS[rng.below(len(CHARS))]
        add("hamming", "duden hamming %s %s" % (enc_ints(t), enc_ints(v)), "Der Text t ist %s.\nDer Text u ist %s.\n" % (T, lit_text(v)) + p_scalar("die Hamming-Distanz zwischen t und u"), lambda x: x + "\n")
        w = v if rng.below(2) else t[:rng.below(len(t) + 1)]
        if t and w:
            add("vergleiche", "duden vergleiche %s %s" % (enc_ints(t), enc_ints(w)),
                "Der Text t ist %s.\nDer Text u ist %s.\nDie Zahl v ist t mit u verglichen.\n" % (T, lit_text(w)) +
                'Wenn v gleich 0 ist, Schreibe "0" auf eine Zeile.\nWenn v größer als 0 ist, Schreibe "+" auf eine Zeile.\nWenn v kleiner als 0 ist, Schreibe "-" auf eine Zeile.\n',
                lambda x: x + "\n")
        # texts: the edge shapes every run (empty parts in front, in the middle, at the end; only separators)
        for ts2 in ([[], [0x61], [0x62]], [[0x61], [], [0x62]], [[0x61], [0x62], []], [[], []], [[]], [[], [], [0xFC]], [[0x61]]):
            add("verbinden-edge", "duden verbinden %s %d" % (enc_texts(ts2), c), "Die Text Liste tl ist %s.\nDer Buchstabe c ist %s.\n" % (lit_textlist(ts2), C) +
                "Schreibe (tl mit dem Trennzeichen c zum Text verbunden) auf eine Zeile.\n", show_text)
        for t2 in ([c], [c, c], [c, 0x61], [0x61, c], [c, 0x61, c], [0x61, c, c, 0x62], [0x61]):
            td2 = "Der Text t ist %s.\nDer Buchstabe c ist %s.\n" % (lit_text(t2), C)
            add("spalte-edge", "duden spalte %s %d" % (enc_ints(t2), c), td2 + "Die Text Liste r ist t an c gespalten.\n" + p_textlist("r"), show_textlist)
            add("trim-edge", "duden trim %s %d" % (enc_ints(t2), c), td2 + "Schreibe (t mit allen c davor und danach entfernt) auf eine Zeile.\n", show_text)
            add("trimAnfang-edge", "duden trimAnfang %s %d" % (enc_ints(t2), c), td2 + "Schreibe (t mit allen c davor entfernt) auf eine Zeile.\n", show_text)
            add("trimEnde-edge", "duden trimEnde %s %d" % (enc_ints(t2), c), td2 + "Schreibe (t mit allen c danach entfernt) auf eine Zeile.\n", show_text)
        # deleting from / inserting into a Text, finding and splitting at a Text
        for t3 in ([0x61], [0x61, 0x62], [0x61, 0x62, 0x63], [0xE4, 0x20AC, 0x62, 0x1F600]):
            T3 = "Der Text t ist %s.\n" % lit_text(t3)
            for i3 in sorted(set([1, len(t3), (len(t3) + 1) // 2])):
                add("loescheT", "duden loescheT %s %d" % (enc_ints(t3), i3), T3 + "Lösche das Element an der Stelle %d aus t.\nSchreibe t auf eine Zeile.\n" % i3, show_text)
                add("einfuegenT", "duden einfuegenT %s %d 88,89" % (enc_ints(t3), i3), T3 + 'Setze "XY" an die Stelle %d von t.\nSchreibe t auf eine Zeile.\n' % i3, show_text)
                add("einfuegenC", "duden einfuegenT %s %d 90" % (enc_ints(t3), i3), T3 + "Setze 'Z' an die Stelle %d von t.\nSchreibe t auf eine Zeile.\n" % i3, show_text)
                for j3 in sorted(set([i3, len(t3)])):
                    add("loescheBereichT", "duden loescheBereichT %s %d %d" % (enc_ints(t3), i3, j3),
                        T3 + "Lösche alle Elemente im Bereich von %d bis %d aus t.\nSchreibe t auf eine Zeile.\n" % (i3, j3), show_text)
        for t4, u4 in (("aa", "a"), ("aaa", "aa"), ("abab", "ab"), ("xaab", "ab"), ("ab", "ab"), ("ab", "ba"), ("abcab", "ab"), ("a,b,,c", ","), ("ab--cd--", "--"), ("--ab", "--"),
                       ("a--b--c--d", "--"), ("ba--a--aaa", "a--"), ("xabab", "ab")):
            t4c, u4c = [ord(x) for x in t4], [ord(x) for x in u4]
            d4 = "Der Text t ist %s.\nDer Text u ist %s.\n" % (lit_text(t4c), lit_text(u4c))
            add("finde", "duden finde %s %s" % (enc_ints(t4c), enc_ints(u4c)), d4 + "Die Zahlen Liste r ist alle Indizes vom Subtext u in t.\n" + p_list("r"), show_list)
            if len(u4c) >= 2:
                add("spalteText", "duden spalteText %s %s" % (enc_ints(t4c), enc_ints(u4c)), d4 + "Die Text Liste r ist t an u gespalten.\n" + p_textlist("r"), show_textlist)
        # numbers (Duden/Mathe)
        pool = [0, 1, -1, 2, 7, -7, 12, 18, 100, 360, 97, 2 ** 31]
        a, b, c3 = pool[rng.below(len(pool))], pool[rng.below(len(pool))], pool[rng.below(len(pool))]
        nd = "Die Zahl a ist %s.\nDie Zahl b ist %s.\nDie Zahl d ist %s.\n" % (lit_int(a), lit_int(b), lit_int(c3))
        add("max2", "duden max2 %d %d" % (a, b), nd + p_scalar("die größere Zahl von a und b"), lambda x: x + "\n")
        add("min2", "duden min2 %d %d" % (a, b), nd + p_scalar("die kleinere Zahl von a und b"), lambda x: x + "\n")
        add("max3", "duden max3 %d %d %d" % (a, b, c3), nd + p_scalar("die größere Zahl von a, b und d"), lambda x: x + "\n")
        add("min3", "duden min3 %d %d %d" % (a, b, c3), nd + p_scalar("die kleinere Zahl von a, b und d"), lambda x: x + "\n")
        add("sign", "duden sign %d" % a, nd + p_scalar("das Vorzeichen von a"), lambda x: x + "\n")
        pa, pb = abs(a) % 1000 + 1, abs(b) % 1000 + 1
        pd = "Die Zahl a ist %d.\nDie Zahl b ist %d.\n" % (pa, pb)
        add("ggT", "duden ggT %d %d" % (pa, pb), pd + p_scalar("der größte gemeinsame Teiler von a und b"), lambda x: x + "\n")
        add("kgV", "duden kgV %d %d" % (pa, pb), pd + p_scalar("das kleinste gemeinsame Vielfache von a und b"), lambda x: x + "\n")
        add("teilbar", "duden teilbar %d %d" % (a, pb), "Die Zahl a ist %s.\nDie Zahl b ist %d.\n" % (lit_int(a), pb) + p_scalar("a durch b teilbar ist"), show_bool)
        z = [2, 3, 4, 12, 97, 360, 1001, 7919, 65536, 999983][rng.below(10)]
        add("primfaktoren", "duden primfaktoren %d" % z, "Die Zahlen Liste r ist die Primfaktoren von %d.\n" % z + p_list("r"), show_list)
    return out


def check(res, tier):
    sd = seed()
    rng = Rng(sd)
    broken = leanproj.prove(res, "Props.C17", "Props/C17.lean")
    model = build_model()
    ddp = pipeline.build()
    quick = tier == "quick"
    cs = cases(rng, 8 if quick else 80)
    answers = corr.run_lines(model, [c[1] for c in cs])
    # several observations per program: each case in its own block scope; one program imports one set of modules
    progs, groups = [], []
    per = 25
    for hk in sorted(HEADS):
        sel = [(c, a) for c, a in zip(cs, answers) if c[5] == hk]
        for i in range(0, len(sel), per):
            grp = sel[i:i + per]
            src = HEADS[hk]
            for c, _ in grp:
                src += "Wenn wahr, dann:\n" + "".join("\t" + ln + "\n" for ln in c[2].rstrip("\n").split("\n")) + 'Schreibe "#" auf eine Zeile.\n'
            progs.append(src)
            groups.append(grp)
    cfgs = [pipeline.Config(opt=1)] if quick else [pipeline.Config(opt=0), pipeline.Config(opt=2), pipeline.Config(opt=1, asan=True)]
    outs = pipeline.farm(ddp, [({"main.ddp": s}, cfg, {"timeout": 20}) for s in progs for cfg in cfgs])
    st = Counter()
    k = 0
    for src, grp in zip(progs, groups):
        exp_parts = []
        for c, a in grp:
            if a == "bad-request":
                res.violation("duden-model:%s" % c[0], "the model does not understand the request %r" % c[1], {"model_request": c[1]}, has_input=False)
            if a in ("domain", "bad-request", "inexact"):
                exp_parts.append(None)
                st["skipped:" + a] += 1
            else:
                exp_parts.append(c[3](a) + (c[4] or ""))
        for cfg in cfgs:
            r = outs[k]
            k += 1
            res.evaluations += len(grp)
            st["impl:" + r.cls] += 1
            if r.cls != "ok":
                if len(res.violations) < 5:
                    res.violation("duden-run:%s:%s" % (cfg.name(), hash(src) % 10 ** 8), "a program calling Duden functions on in-domain arguments ended as %s" % r.cls,
                                  {"program": src, "config": cfg.name(), "implementation": r.as_dict(), "functions": [c[0] for c, _ in grp]})
                continue
            got = r.stdout.split("#\n")
            for (c, _), want, g in zip(grp, exp_parts, got):
                st["op:" + c[0]] += 1
                if want is None:
                    continue
                res.nontrivial(c[0] + ":" + str(len(c[1])))
                if g != want and len(res.violations) < 6:
                    res.violation("duden:%s:%s" % (c[0], hash(c[1]) % 10 ** 8),
                                  "%s: the library prints %r, the documented meaning gives %r (%s)" % (c[0], g, want, c[1]),
                                  {"program": HEADS[c[5]] + c[2], "expected_stdout": want, "observed": g, "model_request": c[1], "config": cfg.name()})
    evalcorr.report_broken(res, broken)
    res.extra.update({"cases": len(cs), "programs": len(progs), "configs": [c.name() for c in cfgs], "statistics": dict(sorted(st.items()))})
    res.rule = ("for each of ~300 call forms (Listen: anfügen, voranstellen, einfügen, Bereich einfügen, löschen, Bereich löschen, füllen, leeren, "
                "Index, enthält, leer, erste/letzte n, spiegeln for Zahlen/Text/Buchstaben/Kommazahlen/Wahrheitswert lists in Referenz and value "
                "form, Summe, Produkt, elementweise x5, auf-/absteigend, linear, aneinandergehängt, verketten; Sortierung: sortiert / Sortiere / "
                "Tausche; Texte: Trim x3, Entferne vorne/hinten, Anzahl, enthält, beginnt/endet, Index, Polster, Spalte x3, Verbinden x4, "
                "groß/klein, Buchstaben, Worte, Bytes, Hamming, Levenshtein, Vergleiche, Ist_Zahl; Zeichen: every class and both case mappings on "
                "all ASCII characters and the German letters; Zahlen/Mathe: max/min/clamp, sign, trunc, floor, ceil, runden, Quadrat, gerade, ganz, "
                "Fakultät, Teiler, ggT, kgV, Brüche, Hex; Statistik: höchste/kleinste, Häufigkeiten, Mittelwert, Median, Modalwert, Quantil, Varianz, "
                "Standardabweichung, Spannweite, Interquartilabstand, Kovarianz, Korrelation) generated arguments with lengths 0/1/2/3/5(7), "
                "duplicates, negative and large numbers, multi-byte characters: printed result and printed value arguments afterwards against DDP.Duden")
    res.assumptions += ["only arguments inside the documented domain are judged; Kommazahl results only where the exact result is a dyadic rational "
                        "with few digits (the model answers `inexact` otherwise); letter classes and case mapping on ASCII and Ä Ö Ü ä ö ü ß; "
                        "the call forms on which the library contradicts its documentation are listed in C17_FINDINGS.md and not generated; "
                        "trigonometric/logarithmic functions, Logspace and the remaining Duden modules are not covered"]

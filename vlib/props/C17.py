"""C17 — Duden list, text, number and sorting functions meet their specification.

Theorems: lean/Props/C17.lean about DDP.Duden (the documented meaning as sequence operations:
lengths, inverses, involution, sum laws, sorting = ordered permutation, split/join inverse, trim,
padding, comparison).  Tie: for ~40 functions of Duden/Listen, Duden/Texte and Duden/Sortierung,
in their value and Referenz variants, DDP programs call the real library on generated arguments
(boundary lengths 0/1/2, duplicates, multi-byte characters) and print result and arguments; the
output is compared with `ddpmodel duden`."""
from collections import Counter

from .. import leanproj, pipeline, corr, evalcorr
from ..common import Rng, seed
from ..corr import build_model

HEAD = 'Binde "Duden/Ausgabe" ein.\nBinde "Duden/Listen" ein.\nBinde "Duden/Texte" ein.\nBinde "Duden/Sortierung" ein.\nBinde "Duden/Mathe" ein.\n\n'
CHARS = [0x61, 0x62, 0x20, 0x2C, 0xE4, 0x20AC, 0x1F600, 0x41, 0x5A, 0x7A]


def lit_int(v):
    return str(v) if v >= 0 else "(-%d)" % -v


def lit_list(l):
    return "eine leere Zahlen Liste" if not l else "eine Liste, die aus %s besteht" % ", ".join(lit_int(v) for v in l)


def lit_char(c):
    return "'%s'" % {0x27: "\\'", 0x5C: "\\\\"}.get(c, chr(c))


def lit_text(t):
    return '"%s"' % "".join({0x22: '\\"', 0x5C: "\\\\"}.get(c, chr(c)) for c in t)


def lit_textlist(ts):
    return "eine leere Text Liste" if not ts else "eine Liste, die aus %s besteht" % ", ".join(lit_text(t) for t in ts)


def enc_ints(l):
    return ",".join(str(v) for v in l) or "-"


def enc_texts(ts):
    return "/".join(enc_ints(t) for t in ts) if ts else "leer"


# printing helpers (DDP source) -------------------------------------------------
def p_list(v):
    return "Schreibe \"[\".\nFür jede Zahl el in %s, mache:\n\tSchreibe el.\n\tSchreibe \",\".\nSchreibe \"]\" auf eine Zeile.\n" % v


def p_textlist(v):
    return "Schreibe \"[\".\nFür jeden Text el in %s, mache:\n\tSchreibe el.\n\tSchreibe \"|\".\nSchreibe \"]\" auf eine Zeile.\n" % v


def p_scalar(v):
    return "Schreibe (%s) auf eine Zeile.\n" % v


def show_list(enc):
    return "[" + "".join(x + "," for x in ([] if enc == "-" else enc.split(","))) + "]\n"


def show_text(enc):
    return "".join(chr(int(x)) for x in ([] if enc == "-" else enc.split(","))) + "\n"


def show_textlist(enc):
    if enc == "leer":
        return "[]\n"
    return "[" + "".join(show_text(x)[:-1] + "|" for x in enc.split("/")) + "]\n"


def show_bool(enc):
    return ("wahr" if enc == "1" else "falsch") + "\n"


class Case:
    def __init__(self, name, model_req, src, shows, domain_ok=True):
        self.name, self.model_req, self.src, self.shows = name, model_req, src, shows


def gen_list(rng, maxlen=5):
    n = [0, 1, 2, 3, 5][rng.below(5)]
    pool = [0, 1, -1, 2, 2, 7, -7, 100, 2 ** 40]
    return [pool[rng.below(len(pool))] for _ in range(n)]


def gen_text(rng):
    n = [0, 1, 2, 4, 7][rng.below(5)]
    return [CHARS[rng.below(len(CHARS))] for _ in range(n)]


def cases(rng, per_op):
    """yields (op name, model request, DDP source printing the observation, decoder for the model's answer)"""
    out = []

    def add(op, req, src, show, unchanged=None):
        out.append((op, req, src, show, unchanged))
    for _ in range(per_op):
        l, o = gen_list(rng), gen_list(rng)
        e = [0, 2, 7, -1][rng.below(4)]
        L, O = lit_list(l), lit_list(o)
        decl = "Die Zahlen Liste l ist %s.\nDie Zahlen Liste o ist %s.\n" % (L, O)
        # Referenz variants mutate l; the value argument o must stay what it was
        add("anfuegen", "duden anfuegen %s %d" % (enc_ints(l), e), decl + "Füge %s an l an.\n" % lit_int(e) + p_list("l"), show_list)
        add("anfuegenListe", "duden anfuegenListe %s %s" % (enc_ints(l), enc_ints(o)), decl + "Füge o an l an.\n" + p_list("l") + p_list("o"), show_list, show_list(enc_ints(o)))
        add("voranstellen", "duden voranstellen %s %d" % (enc_ints(l), e), decl + "Stelle %s vor l.\n" % lit_int(e) + p_list("l"), show_list)
        add("fuelle", "duden fuelle %s %d" % (enc_ints(l), e), decl + "Fülle l mit %s.\n" % lit_int(e) + p_list("l"), show_list)
        if l:
            i = 1 + rng.below(len(l))
            add("einfuegen", "duden einfuegen %s %d %d" % (enc_ints(l), i, e), decl + "Setze %s an die Stelle %d von l.\n" % (lit_int(e), i) + p_list("l"), show_list)
            add("loesche", "duden loesche %s %d" % (enc_ints(l), i), decl + "Lösche das Element an der Stelle %d aus l.\n" % i + p_list("l"), show_list)
            a = 1 + rng.below(len(l))
            b = a + rng.below(len(l) - a + 1)
            add("loescheBereich", "duden loescheBereich %s %d %d" % (enc_ints(l), a, b), decl + "Lösche alle Elemente von %d bis %d aus l.\n" % (a, b) + p_list("l"), show_list)
            n = 1 + rng.below(len(l))
            add("ersteN", "duden ersteN %s %d" % (enc_ints(l), n), decl + "Die Zahlen Liste r ist die ersten %d Elemente von l.\n" % n + p_list("r") + p_list("l"), show_list, show_list(enc_ints(l)))
            add("letzteN", "duden letzteN %s %d" % (enc_ints(l), n), decl + "Die Zahlen Liste r ist die letzten %d Elemente von l.\n" % n + p_list("r") + p_list("l"), show_list, show_list(enc_ints(l)))
        add("indexVon", "duden indexVon %s %d" % (enc_ints(l), e), decl + p_scalar("der Index von %s in l" % lit_int(e)) + p_list("l"), lambda x: x + "\n", show_list(enc_ints(l)))
        add("indexVon-value", "duden indexVon %s %d" % (enc_ints(l), e), decl + p_scalar("der Index von %s in (l verkettet mit o)" % lit_int(e)).replace("(l verkettet mit o)", "(%s)" % L), lambda x: x + "\n")
        add("enthaelt", "duden enthaelt %s %d" % (enc_ints(l), e), decl + p_scalar("l %s enthält" % lit_int(e)), show_bool)
        add("leer", "duden leer %s" % enc_ints(l), decl + p_scalar("l leer ist"), show_bool)
        add("gespiegelt", "duden gespiegelt %s" % enc_ints(l), decl + "Die Zahlen Liste r ist l gespiegelt.\n" + p_list("r") + p_list("l"), show_list, show_list(enc_ints(l)))
        small = [v for v in l if abs(v) < 1000]
        add("summe", "duden summe %s" % enc_ints(small), "Die Zahlen Liste l ist %s.\n" % lit_list(small) + p_scalar("die Summe aller Elemente in l"), lambda x: x + "\n")
        add("produkt", "duden produkt %s" % enc_ints(small[:4]), "Die Zahlen Liste l ist %s.\n" % lit_list(small[:4]) + p_scalar("das Produkt aller Elemente in l"), lambda x: x + "\n")
        m = min(len(l), len(o))
        if m:
            a2, b2 = [v % 1000 for v in l[:m]], [v % 1000 for v in o[:m]]
            d2 = "Die Zahlen Liste l ist %s.\nDie Zahlen Liste o ist %s.\n" % (lit_list(a2), lit_list(b2))
            add("elementweiseSumme", "duden elementweiseSumme %s %s" % (enc_ints(a2), enc_ints(b2)), d2 + "Die Zahlen Liste r ist jedes Element aus l mit o addiert.\n" + p_list("r"), show_list)
            add("elementweiseProdukt", "duden elementweiseProdukt %s %s" % (enc_ints(a2), enc_ints(b2)), d2 + "Die Zahlen Liste r ist jedes Element aus l mit o multipliziert.\n" + p_list("r"), show_list)
        a3 = rng.below(7) - 3
        b3 = a3 + rng.below(6)
        add("aufsteigend", "duden aufsteigend %d %d" % (a3, b3), "Die Zahlen Liste r ist eine aufsteigende Zahlen Liste von %s bis %s.\n" % (lit_int(a3), lit_int(b3)) + p_list("r"), show_list)
        add("sortiert", "duden sortiert %s" % enc_ints(l), decl + "Die Zahlen Liste r ist l sortiert.\n" + p_list("r") + p_list("l"), show_list, show_list(enc_ints(l)))
        add("sortiere-ref", "duden sortiert %s" % enc_ints(l), decl + "Sortiere l.\n" + p_list("l"), show_list)
        # texts
        t, u = gen_text(rng), gen_text(rng)[:2]
        c = CHARS[rng.below(len(CHARS))]
        if t and rng.below(2):
            t = [c] * rng.below(3) + t + [c] * rng.below(3)
        T, U, C = lit_text(t), lit_text(u), lit_char(c)
        td = "Der Text t ist %s.\nDer Text u ist %s.\nDer Buchstabe c ist %s.\n" % (T, U, C)
        add("trimAnfang", "duden trimAnfang %s %d" % (enc_ints(t), c), td + "Schreibe (t mit allen c davor entfernt) auf eine Zeile.\nSchreibe t auf eine Zeile.\n", show_text, show_text(enc_ints(t)))
        add("trimEnde", "duden trimEnde %s %d" % (enc_ints(t), c), td + "Schreibe (t mit allen c danach entfernt) auf eine Zeile.\n", show_text)
        add("trim", "duden trim %s %d" % (enc_ints(t), c), td + "Schreibe (t mit allen c davor und danach entfernt) auf eine Zeile.\n", show_text)
        add("trim-ref", "duden trim %s %d" % (enc_ints(t), c), td + "Entferne alle c vor und nach t.\nSchreibe t auf eine Zeile.\n", show_text)
        add("trimAnfang-ref", "duden trimAnfang %s %d" % (enc_ints(t), c), td + "Entferne alle c vor t.\nSchreibe t auf eine Zeile.\n", show_text)
        add("anzahlBuchstabe", "duden anzahlBuchstabe %s %d" % (enc_ints(t), c), td + p_scalar("die Anzahl der c Buchstaben in t"), lambda x: x + "\n")
        add("enthaeltBuchstabe", "duden enthaeltBuchstabe %s %d" % (enc_ints(t), c), td + p_scalar("t c enthält"), show_bool)
        if t and u:
            add("beginntMit", "duden beginntMit %s %s" % (enc_ints(t), enc_ints(u)), td + p_scalar("u am Anfang von t steht"), show_bool)
            add("endetMit", "duden endetMit %s %s" % (enc_ints(t), enc_ints(u)), td + p_scalar("u am Ende von t steht"), show_bool)
            add("anzahlText", "duden anzahlText %s %s" % (enc_ints(t), enc_ints(u)), td + p_scalar("die Anzahl der Subtexte u in t"), lambda x: x + "\n")
            add("enthaeltText", "duden enthaeltText %s %s" % (enc_ints(t), enc_ints(u)), td + p_scalar("t u enthält"), show_bool)
            add("indexVonText", "duden indexVonText %s %s" % (enc_ints(t), enc_ints(u)), td + p_scalar("der Index von u in t"), lambda x: x + "\n")
        n2 = rng.below(10)
        add("polsterLinks", "duden polsterLinks %s %d %d" % (enc_ints(t), c, n2), td + "Schreibe (t mit %d c links gepolstert) auf eine Zeile.\nSchreibe t auf eine Zeile.\n" % n2, show_text, show_text(enc_ints(t)))
        add("polsterRechts", "duden polsterRechts %s %d %d" % (enc_ints(t), c, n2), td + "Schreibe (t mit %d c rechts gepolstert) auf eine Zeile.\n" % n2, show_text)
        add("spalte", "duden spalte %s %d" % (enc_ints(t), c), td + "Die Text Liste r ist t an c gespalten.\n" + p_textlist("r") + "Schreibe t auf eine Zeile.\n", show_textlist, show_text(enc_ints(t)))
        ts = [gen_text(rng)[:3] for _ in range(rng.below(4))]
        ts = [[x for x in w if x != 0x7C] for w in ts]
        add("verbinden", "duden verbinden %s %d" % (enc_texts(ts), c), "Die Text Liste tl ist %s.\nDer Buchstabe c ist %s.\n" % (lit_textlist(ts), C) +
            "Schreibe (tl mit dem Trennzeichen c zum Text verbunden) auf eine Zeile.\n", show_text)
        asc = [x for x in t if x < 128]
        add("gross", "duden gross %s" % enc_ints(asc), "Der Text t ist %s.\n" % lit_text(asc) + "Schreibe (t groß geschrieben) auf eine Zeile.\nSchreibe t auf eine Zeile.\n", show_text, show_text(enc_ints(asc)))
        add("klein-ref", "duden klein %s" % enc_ints(asc), "Der Text t ist %s.\n" % lit_text(asc) + "Schreibe t klein.\nSchreibe t auf eine Zeile.\n", show_text)
        v = list(t)
        if v and rng.below(2):
            v[rng.below(len(v))] = CHARS[rng.below(len(CHARS))]
        add("hamming", "duden hamming %s %s" % (enc_ints(t), enc_ints(v)), "Der Text t ist %s.\nDer Text u ist %s.\n" % (T, lit_text(v)) + p_scalar("die Hamming-Distanz zwischen t und u"), lambda x: x + "\n")
        w = v if rng.below(2) else t[:rng.below(len(t) + 1)]
        if t and w:
            add("vergleiche", "duden vergleiche %s %s" % (enc_ints(t), enc_ints(w)),
                "Der Text t ist %s.\nDer Text u ist %s.\nDie Zahl v ist t mit u verglichen.\n" % (T, lit_text(w)) +
                'Wenn v gleich 0 ist, Schreibe "0" auf eine Zeile.\nWenn v größer als 0 ist, Schreibe "+" auf eine Zeile.\nWenn v kleiner als 0 ist, Schreibe "-" auf eine Zeile.\n',
                lambda x: x + "\n")
        # texts: the edge shapes every run (empty parts in front, in the middle, at the end; only separators)
        for ts2 in ([[], [0x61], [0x62]], [[0x61], [], [0x62]], [[0x61], [0x62], []], [[], []], [[]], [[], [], [0xFC]], [[0x61]]):
            add("verbinden-edge", "duden verbinden %s %d" % (enc_texts(ts2), c), "Die Text Liste tl ist %s.\nDer Buchstabe c ist %s.\n" % (lit_textlist(ts2), C) +
                "Schreibe (tl mit dem Trennzeichen c zum Text verbunden) auf eine Zeile.\n", show_text)
        for t2 in ([c], [c, c], [c, 0x61], [0x61, c], [c, 0x61, c], [0x61, c, c, 0x62], [0x61]):
            td2 = "Der Text t ist %s.\nDer Buchstabe c ist %s.\n" % (lit_text(t2), C)
            add("spalte-edge", "duden spalte %s %d" % (enc_ints(t2), c), td2 + "Die Text Liste r ist t an c gespalten.\n" + p_textlist("r"), show_textlist)
            add("trim-edge", "duden trim %s %d" % (enc_ints(t2), c), td2 + "Schreibe (t mit allen c davor und danach entfernt) auf eine Zeile.\n", show_text)
            add("trimAnfang-edge", "duden trimAnfang %s %d" % (enc_ints(t2), c), td2 + "Schreibe (t mit allen c davor entfernt) auf eine Zeile.\n", show_text)
            add("trimEnde-edge", "duden trimEnde %s %d" % (enc_ints(t2), c), td2 + "Schreibe (t mit allen c danach entfernt) auf eine Zeile.\n", show_text)
        # deleting from / inserting into a Text, finding and splitting at a Text
        for t3 in ([0x61], [0x61, 0x62], [0x61, 0x62, 0x63], [0xE4, 0x20AC, 0x62, 0x1F600]):
            T3 = "Der Text t ist %s.\n" % lit_text(t3)
            for i3 in sorted(set([1, len(t3), (len(t3) + 1) // 2])):
                add("loescheT", "duden loescheT %s %d" % (enc_ints(t3), i3), T3 + "Lösche das Element an der Stelle %d aus t.\nSchreibe t auf eine Zeile.\n" % i3, show_text)
                add("einfuegenT", "duden einfuegenT %s %d 88,89" % (enc_ints(t3), i3), T3 + 'Setze "XY" an die Stelle %d von t.\nSchreibe t auf eine Zeile.\n' % i3, show_text)
                add("einfuegenC", "duden einfuegenT %s %d 90" % (enc_ints(t3), i3), T3 + "Setze 'Z' an die Stelle %d von t.\nSchreibe t auf eine Zeile.\n" % i3, show_text)
                for j3 in sorted(set([i3, len(t3)])):
                    add("loescheBereichT", "duden loescheBereichT %s %d %d" % (enc_ints(t3), i3, j3),
                        T3 + "Lösche alle Elemente im Bereich von %d bis %d aus t.\nSchreibe t auf eine Zeile.\n" % (i3, j3), show_text)
        for t4, u4 in (("aa", "a"), ("aaa", "aa"), ("abab", "ab"), ("xaab", "ab"), ("ab", "ab"), ("ab", "ba"), ("abcab", "ab"), ("a,b,,c", ","), ("ab--cd--", "--"), ("--ab", "--")):
            t4c, u4c = [ord(x) for x in t4], [ord(x) for x in u4]
            d4 = "Der Text t ist %s.\nDer Text u ist %s.\n" % (lit_text(t4c), lit_text(u4c))
            add("finde", "duden finde %s %s" % (enc_ints(t4c), enc_ints(u4c)), d4 + "Die Zahlen Liste r ist alle Indizes vom Subtext u in t.\n" + p_list("r"), show_list)
            if len(u4c) >= 2:
                add("spalteText", "duden spalteText %s %s" % (enc_ints(t4c), enc_ints(u4c)), d4 + "Die Text Liste r ist t an u gespalten.\n" + p_textlist("r"), show_textlist)
        # numbers (Duden/Mathe)
        pool = [0, 1, -1, 2, 7, -7, 12, 18, 100, 360, 97, 2 ** 31]
        a, b, c3 = pool[rng.below(len(pool))], pool[rng.below(len(pool))], pool[rng.below(len(pool))]
        nd = "Die Zahl a ist %s.\nDie Zahl b ist %s.\nDie Zahl d ist %s.\n" % (lit_int(a), lit_int(b), lit_int(c3))
        add("max2", "duden max2 %d %d" % (a, b), nd + p_scalar("die größere Zahl von a und b"), lambda x: x + "\n")
        add("min2", "duden min2 %d %d" % (a, b), nd + p_scalar("die kleinere Zahl von a und b"), lambda x: x + "\n")
        add("max3", "duden max3 %d %d %d" % (a, b, c3), nd + p_scalar("die größere Zahl von a, b und d"), lambda x: x + "\n")
        add("min3", "duden min3 %d %d %d" % (a, b, c3), nd + p_scalar("die kleinere Zahl von a, b und d"), lambda x: x + "\n")
        add("sign", "duden sign %d" % a, nd + p_scalar("das Vorzeichen von a"), lambda x: x + "\n")
        pa, pb = abs(a) % 1000 + 1, abs(b) % 1000 + 1
        pd = "Die Zahl a ist %d.\nDie Zahl b ist %d.\n" % (pa, pb)
        add("ggT", "duden ggT %d %d" % (pa, pb), pd + p_scalar("der größte gemeinsame Teiler von a und b"), lambda x: x + "\n")
        add("kgV", "duden kgV %d %d" % (pa, pb), pd + p_scalar("das kleinste gemeinsame Vielfache von a und b"), lambda x: x + "\n")
        add("teilbar", "duden teilbar %d %d" % (a, pb), "Die Zahl a ist %s.\nDie Zahl b ist %d.\n" % (lit_int(a), pb) + p_scalar("a durch b teilbar ist"), show_bool)
        z = [2, 3, 4, 12, 97, 360, 1001, 7919, 65536, 999983][rng.below(10)]
        add("primfaktoren", "duden primfaktoren %d" % z, "Die Zahlen Liste r ist die Primfaktoren von %d.\n" % z + p_list("r"), show_list)
    return out


def check(res, tier):
    sd = seed()
    rng = Rng(sd)
    broken = leanproj.prove(res, "Props.C17", "Props/C17.lean")
    model = build_model()
    ddp = pipeline.build()
    quick = tier == "quick"
    cs = cases(rng, 8 if quick else 80)
    answers = corr.run_lines(model, [c[1] for c in cs])
    # several observations per program: each case in its own block scope
    progs, groups = [], []
    per = 12
    for i in range(0, len(cs), per):
        grp = cs[i:i + per]
        src = HEAD
        for c in grp:
            src += "Wenn wahr, dann:\n" + "".join("\t" + ln + "\n" for ln in c[2].rstrip("\n").split("\n")) + 'Schreibe "#" auf eine Zeile.\n'
        progs.append(src)
        groups.append(grp)
    cfgs = [pipeline.Config(opt=1)] if quick else [pipeline.Config(opt=0), pipeline.Config(opt=2), pipeline.Config(opt=1, asan=True)]
    outs = pipeline.farm(ddp, [({"main.ddp": s}, cfg, {"timeout": 20}) for s in progs for cfg in cfgs])
    st = Counter()
    k = 0
    ai = 0
    for src, grp in zip(progs, groups):
        exp_parts = []
        for c in grp:
            a = answers[ai]
            ai += 1
            if a in ("domain", "bad-request"):
                exp_parts.append(None)
            else:
                exp_parts.append(c[3](a) + (c[4] or ""))
        for cfg in cfgs:
            r = outs[k]
            k += 1
            res.evaluations += len(grp)
            st["impl:" + r.cls] += 1
            if r.cls != "ok":
                if len(res.violations) < 5:
                    res.violation("duden-run:%s:%s" % (cfg.name(), hash(src) % 10 ** 8), "a program calling Duden functions on in-domain arguments ended as %s" % r.cls,
                                  {"program": src, "config": cfg.name(), "implementation": r.as_dict(), "functions": [c[0] for c in grp]})
                continue
            got = r.stdout.split("#\n")
            for c, want, g in zip(grp, exp_parts, got):
                st["op:" + c[0]] += 1
                res.nontrivial(c[0] + ":" + str(len(c[1])))
                if want is None:
                    st["outside-domain"] += 1
                    continue
                if g != want and len(res.violations) < 6:
                    res.violation("duden:%s:%s" % (c[0], hash(c[1]) % 10 ** 8),
                                  "%s: the library prints %r, the documented meaning gives %r (%s)" % (c[0], g, want, c[1]),
                                  {"program": HEAD + c[2], "expected_stdout": want, "observed": g, "model_request": c[1], "config": cfg.name()})
    evalcorr.report_broken(res, broken)
    res.extra.update({"cases": len(cs), "programs": len(progs), "configs": [c.name() for c in cfgs], "statistics": dict(sorted(st.items()))})
    res.rule = ("for each of ~45 call forms (Listen: anfügen, voranstellen, einfügen, löschen, Bereich löschen, füllen, Index, enthält, leer, "
                "erste/letzte n, spiegeln, Summe, Produkt, elementweise, aufsteigend; Sortierung: sortiert / Sortiere; Texte: Trim x3 in "
                "value and Referenz form, Anzahl, enthält, beginnt/endet, Index, Polster, Spalte, Verbinden, groß/klein, Hamming, "
                "Vergleiche) generated arguments with lengths 0/1/2/3/5(7), duplicates, negative and large numbers, multi-byte characters: "
                "printed result and printed value arguments afterwards against DDP.Duden")
    res.assumptions += ["only arguments inside the documented domain are judged; case mapping is checked on ASCII only; Kommazahl functions and the "
                        "remaining Duden modules (Mathe, Statistik, Zeichen, …) are not covered"]

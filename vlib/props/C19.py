"""C19 — every literal denotes its written value."""
import itertools
import struct
from fractions import Fraction

from .. import corr, leanproj, pipeline
from ..common import Rng, seed, error_codes

ALPHA = ["\"", "\\", "a", "n", "q", "t", "\n", "ü", "€", "😀", " ", "'"]


def int_cases():
    out = set()
    for k in range(0, 66):
        for d in (-1, 0, 1):
            v = 2 ** k + d
            if v >= 0:
                out.add(str(v))
    for k in range(0, 22):
        for d in (-1, 0, 1):
            v = 10 ** k + d
            if v >= 0:
                out.add(str(v))
    out |= {"0", "00", "007", "9223372036854775807", "9223372036854775808", "18446744073709551615",
            "18446744073709551616", "99999999999999999999", "000000000000000000000000009223372036854775807"}
    return sorted(out, key=lambda s: (len(s), s))


def float_cases(rng, n):
    out = []
    fixed = ["0,0", "0,1", "0,5", "1,5", "3,14", "0,3", "2,5", "0,000001", "123456789,123456789", "1,0000000000000002",
             "9007199254740993,0", "9007199254740992,5", "0,1000000000000000055511151231257827", "179769313486231570000000000000,0",
             "4,35", "0,000000000000000000000000000001", "5,0000000000000004440892098500626", "1,7976931348623157"]
    out += fixed
    for _ in range(n):
        kind = rng.below(3)
        if kind == 0:
            a = str(rng.below(10 ** (1 + rng.below(9))))
            b = "".join(str(rng.below(10)) for _ in range(1 + rng.below(18)))
            out.append(a + "," + b)
        elif kind == 1:
            # exact halfway between two adjacent doubles in [1,2): 53 fractional digits
            m = rng.below(2 ** 52)
            mid = Fraction(2 * (2 ** 52 + m) + 1, 2 ** 53)
            out.append(frac_to_dec(mid))
        else:
            # just above / below a halfway point
            m = rng.below(2 ** 52)
            mid = Fraction(2 * (2 ** 52 + m) + 1, 2 ** 53)
            eps = Fraction(1, 10 ** 60)
            out.append(frac_to_dec(mid + (eps if rng.chance(1, 2) else -eps), 60))
    return out


def frac_to_dec(f, digits=None):
    ip = f.numerator // f.denominator
    rem = f - ip
    ds = []
    while rem != 0 and (digits is None or len(ds) < digits):
        rem *= 10
        d = rem.numerator // rem.denominator
        ds.append(str(d))
        rem -= d
    return "%d,%s" % (ip, "".join(ds) or "0")


def first(o, kind):
    for e in ((o.get("extra") or {}).get("lits") or []):
        if e.startswith(kind):
            return e
    return None


def check(res, tier):
    rng = Rng(seed())
    broken = leanproj.prove(res, "Props.C19", "Props/C19.lean")
    harness = corr.build_harness()
    model = corr.build_model()
    codes = error_codes()
    ML = codes["SYN_MALFORMED_LITERAL"]
    reqs, meta, mlines = [], [], []

    def add(kind, src_lit, prog):
        reqs.append({"files": {"main.ddp": prog}, "main": "main.ddp", "dump": ["lits"]})
        meta.append((kind, src_lit))
        mlines.append("lit " + src_lit.encode("utf-8").hex())

    n = 3 if tier == "quick" else 4
    for k in range(0, n + 1):
        for combo in itertools.product(ALPHA, repeat=k):
            c = "".join(combo)
            add("str", '"%s"' % c, 'Der Text t ist "%s".\n' % c)
    for k in range(0, min(n, 3) + 1):
        for combo in itertools.product(ALPHA, repeat=k):
            c = "".join(combo)
            add("chr", "'%s'" % c, "Der Buchstabe c ist '%s'.\n" % c)
    nex = len(reqs)
    for s in int_cases():
        add("int", s, "Die Zahl z ist %s.\n" % s)
    floats = float_cases(rng, 300 if tier == "quick" else 20000)
    for s in floats:
        add("float", s, "Die Kommazahl k ist %s.\n" % s)
    # the same literals in other syntactic positions than an initialiser: argument of a function call (the tokens of an
    # argument are parsed by a parser of their own), parenthesised argument, list element, operand, returned value
    FN = {"int": "Zahl", "float": "Kommazahl", "str": "Text", "chr": "Buchstabe"}
    ART = {"int": "eine Zahl", "float": "eine Kommazahl", "str": "einen Text", "chr": "einen Buchstaben"}
    LST = {"int": "Zahlen Liste", "float": "Kommazahlen Liste", "str": "Text Liste", "chr": "Buchstaben Liste"}

    def contexts(kind, lit):
        t = FN[kind]
        fn = ('Die Funktion nimm mit dem Parameter p vom Typ %s, gibt nichts zurück, macht:\n\tDer Wahrheitswert lokal ist wahr.\nUnd kann so benutzt werden:\n\t"nimm <p>"\n\n' % t)
        yield "argument", fn + "nimm %s.\n" % lit
        yield "grouped-argument", fn + "nimm (%s).\n" % lit
        yield "list-element", "Die %s l ist eine Liste, die aus %s besteht.\n" % (LST[kind], lit)
        yield "returned", 'Die Funktion liefere gibt %s zurück, macht:\n\tGib %s zurück.\nUnd kann so benutzt werden:\n\t"liefere"\n' % (ART[kind], lit)
        if kind in ("int", "float"):
            yield "operand", "Die Kommazahl z ist %s durch 2.\n" % lit
        yield "condition", "Wenn %s gleich %s ist, dann:\n\tDer Wahrheitswert lokal ist wahr.\n" % (lit, lit)
    ctx_sample = []
    for i, ((kind, lit), rq) in enumerate(zip(list(meta), list(reqs))):
        inner = lit[1:-1]
        if kind in ("str", "chr") and (lit[0] in inner.replace("\\\\", "").replace("\\" + lit[0], "") or "\n" in inner):
            continue        # a raw delimiter inside: more than one literal; only the initialiser form is judged
        if kind == "int" or (kind in ("str", "chr") and i % (37 if tier == "quick" else 5) == 0) or (kind == "float" and i % (11 if tier == "quick" else 3) == 0):
            ctx_sample.append((kind, lit))
    nctx = 0
    for kind, lit in ctx_sample:
        for cname, prog in contexts(kind, lit):
            add(kind, lit, prog)
            nctx += 1
    outs = corr.parse_many(harness, reqs)
    ans = corr.run_lines(model, mlines)
    res.evaluations = len(reqs)
    fl_lines, fl_idx = [], []
    mism = 0
    stats = {"str_values": 0, "chr_values": 0, "int_values": 0, "rejected": 0}
    for i, (r, m, o, a) in enumerate(zip(reqs, meta, outs, ans)):
        kind, lit = m
        res.nontrivial(kind + lit)
        if o["result"] != "ok":
            res.violation("crash:" + lit[:60], "front end does not return on a literal", {"program": r["files"]["main.ddp"], "implementation": o})
            continue
        nml = sum(1 for d in o["diags"] if d["code"] == ML)
        bad = None
        if kind == "str":
            got = first(o, "str ")
            if a.startswith("str "):
                f = a.split(" ")
                want_diags = int(f[2].split("=")[1]) + int(f[3].split("=")[1])
                if want_diags == 0:
                    if got is None or got.split()[1:] != ([f[1]] if f[1] else []):
                        bad = "value of the text literal differs: implementation %r, model %r" % (got, a)
                    else:
                        stats["str_values"] += 1
                    # spec monitor, independent of the model: no backslash -> denotes itself
                    inner = lit[1:-1]
                    if "\\" not in inner and "\"" not in inner and got is not None:
                        v = bytes.fromhex(got.split()[1]).decode() if len(got.split()) > 1 else ""
                        if v != inner:
                            res.violation("spec:str:" + lit, "a text literal without escapes does not denote itself",
                                          {"program": r["files"]["main.ddp"], "implementation": got})
                else:
                    stats["rejected"] += 1
                    if nml == 0 or not o["faulty"]:
                        res.violation("accepted-bad:" + lit, "a text literal with an unknown escape sequence is not rejected",
                                      {"program": r["files"]["main.ddp"], "implementation": o, "model": a})
            elif a.startswith("illegal"):
                if not o["faulty"]:
                    bad = "unterminated literal accepted"
        elif kind == "chr":
            got = first(o, "chr ")
            if a.startswith("chr ") :
                f = a.split()
                sd = int(f[2].split("=")[1])
                if sd == 0:
                    if got != "chr " + f[1]:
                        bad = "value of the character literal differs: implementation %r, model %r" % (got, a)
                    else:
                        stats["chr_values"] += 1
                    if o["faulty"] and nml:
                        bad = "well-formed character literal rejected"
                else:
                    stats["rejected"] += 1
                    if nml == 0 or not o["faulty"]:
                        res.violation("accepted-bad:" + lit, "a malformed character literal is not rejected",
                                      {"program": r["files"]["main.ddp"], "implementation": o, "model": a})
            elif a.startswith("chr-"):
                stats["rejected"] += 1
                if nml == 0 or not o["faulty"]:
                    res.violation("accepted-bad:" + lit, "a malformed character literal is not rejected",
                                  {"program": r["files"]["main.ddp"], "implementation": o, "model": a})
        elif kind == "int":
            got = first(o, "int ")
            if a.startswith("int "):
                if got != "int " + a.split()[1] or o["faulty"]:
                    bad = "value of the integer literal differs: implementation %r, model %r" % (got, a)
                elif int(lit) != int(a.split()[1]):
                    res.violation("spec:int:" + lit, "integer literal does not denote its decimal value", {"literal": lit, "model": a})
                else:
                    stats["int_values"] += 1
            else:
                stats["rejected"] += 1
                if int(lit) < 2 ** 63:
                    res.violation("spec:int-range:" + lit, "model rejects an in-range literal", {"literal": lit}, has_input=False)
                if nml == 0 or not o["faulty"]:
                    res.violation("accepted-bad:" + lit, "an out-of-range integer literal is not rejected",
                                  {"program": r["files"]["main.ddp"], "implementation": o, "model": a})
        elif kind == "float":
            got = first(o, "float ")
            if got is None or o["faulty"]:
                bad = "decimal literal not accepted"
            else:
                ip, fp = lit.split(",")
                fl_lines.append("flt %s %s %s" % (ip, fp, got.split()[1]))
                fl_idx.append(i)
        if bad:
            mism += 1
            if mism <= 6:
                res.violation("corr:" + kind + ":" + lit[:80], bad,
                              {"program": r["files"]["main.ddp"], "implementation": o, "model": a,
                               "correspondence": "parser.Parse literal values vs ddpmodel lit (DDP.Scanner + DDP.Literal)"})
    near = corr.run_lines(model, fl_lines)
    okf = 0
    for l, i, v in zip(fl_lines, fl_idx, near):
        if v != "1":
            res.violation("float:" + meta[i][1][:80], "decimal literal is not rounded to the nearest double (ties to even)",
                          {"literal": meta[i][1], "implementation_bits": l.split()[3], "spec": "DDP.LiteralSpec.isNearestDouble"})
        else:
            okf += 1
    # ---- run time: constants in generated code and printing
    ddp = pipeline.build()
    samples = [("Zahl", "0", "0"), ("Zahl", "9223372036854775807", "9223372036854775807"), ("Zahl", "0042", "42"),
               ("Text", '"a\\tb\\\\c\\"d"', 'a\tb\\c"d'), ("Text", '"ü€😀"', "ü€😀"), ("Text", '"Zeile1\nZeile2"', "Zeile1\nZeile2"),
               ("Text", '"\\n"', "\n"), ("Buchstabe", "'\\''", "'"), ("Buchstabe", "'ß'", "ß"), ("Buchstabe", "'\\\\'", "\\"),
               ("Wahrheitswert", "wahr", "wahr"), ("Wahrheitswert", "falsch", "falsch"), ("Kommazahl", "1,5", "1.5"),
               ("Kommazahl", "0,1", "0.1"), ("Kommazahl", "1,0000000000000002", "1")]
    # Buchstaben literals of every plane and encoded width (written -> scanned -> constant -> encoded again when printed)
    for cp in [0xE4, 0x7FF, 0x800, 0x20AC, 0xD7FF, 0xE000, 0xFFFD] + [pl * 0x10000 + off for pl in range(1, 17) for off in (0x0, 0x1, 0xD800, 0xDFFF, 0x8000, 0xFFFD)]:
        samples.append(("Buchstabe", "'%s'" % chr(cp), chr(cp)))
    prog = 'Binde "Duden/Ausgabe" ein.\n'
    exp = ""
    for (_, lit, want) in samples:
        prog += "Schreibe %s.\nSchreibe \"|\" auf eine Zeile.\n" % (lit if not lit[0].isdigit() or "," in lit else "(%s)" % lit)
        exp += want + "|\n"
    prog += "Für jede Zahl x in eine Liste, die aus 3, 1, 2 besteht, Schreibe x.\nSchreibe \"\" auf eine Zeile.\n"
    exp += "312\n"
    for opt in ((1,) if tier == "quick" else (0, 1, 2)):
        rr = pipeline.compile_run(ddp, {"main.ddp": prog}, pipeline.Config(opt=opt))
        res.evaluations += 1
        if rr.cls != "ok" or rr.stdout != exp:
            res.violation("runtime:O%d" % opt, "compiled literals do not print their written value",
                          {"program": prog, "expected_stdout": exp, "implementation": rr.as_dict()})
    # list literals of both forms, at every optimisation level, after the heap has been used: `n Mal w` denotes n times the
    # written value also when that value is all zero bits
    kinds = [("Zahlen Liste", "jede Zahl", "0", "0"), ("Zahlen Liste", "jede Zahl", "7", "7"), ("Kommazahlen Liste", "jede Kommazahl", "0,0", "0"),
             ("Kommazahlen Liste", "jede Kommazahl", "1,5", "1.5"), ("Wahrheitswert Liste", "jeden Wahrheitswert", "falsch", "falsch"),
             ("Wahrheitswert Liste", "jeden Wahrheitswert", "wahr", "wahr"), ("Buchstaben Liste", "jeden Buchstaben", "'a'", "a"),
             ("Text Liste", "jeden Text", '""', ""), ("Text Liste", "jeden Text", '"ab"', "ab")]
    lprog, lexp, vn = 'Binde "Duden/Ausgabe" ein.\n', "", 0
    for count in (1, 3, 6, 9, 64):
        lprog += ("Wenn wahr, dann:\n\tDie Zahlen Liste m1 ist %d Mal 81985529216486895.\n\tDie Wahrheitswert Liste m2 ist %d Mal wahr.\n"
                  "\tDie Buchstaben Liste m3 ist %d Mal 'z'.\n\tSchreibe ((die Länge von m1) plus (die Länge von m2) plus (die Länge von m3)) auf eine Zeile.\n" % (count, count, count))
        lexp += "%d\n" % (3 * count)
        for tn, each, lit, want in kinds:
            vn += 1
            for form in ("%d Mal %s" % (count, lit), "eine Liste, die aus %s besteht" % ", ".join([lit] * count)):
                vn += 1
                lprog += "Die %s v%d ist %s.\nFür %s e in v%d, mache:\n\tSchreibe e.\n\tSchreibe \"|\".\nSchreibe \"\" auf eine Zeile.\n" % (tn, vn, form, each, vn)
                lexp += (want + "|") * count + "\n"
    for opt in (0, 1, 2):
        rr = pipeline.compile_run(ddp, {"main.ddp": lprog}, pipeline.Config(opt=opt))
        res.evaluations += 1
        if rr.cls != "ok" or rr.stdout != lexp:
            got, wantl = rr.stdout.split("\n"), lexp.split("\n")
            k = next((i for i, (x, y) in enumerate(zip(got + [""], wantl + [""])) if x != y), 0)
            res.violation("runtime-lists:O%d" % opt, "a list literal does not hold its written values at -O %d: output line %d is %r, written %r" % (
                opt, k + 1, got[k] if k < len(got) else None, wantl[k] if k < len(wantl) else None),
                {"program": lprog, "expected_stdout": lexp, "implementation": rr.as_dict(), "config": "O%d" % opt})
    res.extra.update({"exhaustive_text_and_char_literals": nex, "integer_literals": len(int_cases()), "float_literals": len(floats),
                      "float_nearest_ok": okf, "disagreements": mism, **stats})
    res.exhaustive = True
    res.rule = ("all text literals with content of <=%d symbols and all character literals of <=3 symbols over %r (exhaustive); integers "
                "around every power of two and ten, leading zeros, out-of-range; the integer literals and a sample of the others also as call argument, grouped argument, list "
                "element, returned value, operand and condition; random/halfway decimal literals judged by the decidable "
                "nearest-even specification; one compiled program printing a sample. distinct by literal text") % (n, ALPHA)
    for i in (7, nex - 5, nex + 3):
        res.sample({"literal": meta[i][1], "implementation": ((outs[i].get("extra") or {}).get("lits") or []), "faulty": outs[i].get("faulty"), "model": ans[i]})
    if fl_lines:
        res.sample({"float_check": fl_lines[len(fl_lines) // 2], "nearest": near[len(fl_lines) // 2]})
    res.assumptions += ["strconv.ParseInt/ParseFloat trusted; decimals validated per input against isNearestDouble (not a theorem)"]
    for bk in broken:
        res.violation("obligation:" + bk["name"], "proof obligation no longer checks: %s" % bk["name"],
                      {"theorem": bk["name"], "detail": bk["detail"], "kind": "broken-obligation"}, has_input=False)

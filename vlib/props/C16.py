"""C16 — compilation is repeatable: same sources, same verdict, same diagnostics."""
import json
import os

from .. import corr, leanproj, pipeline
from ..common import REPO, Rng, seed

FUNC2 = ('Die Funktion f mit den Parametern a und b vom Typ Zahl und Text, gibt nichts zurück, macht:\n\tDie Zahl u ist 1.\n'
         'Und kann so benutzt werden:\n\t"F <a> <b>"\n\n')
FUNC3 = ('Die Funktion g mit den Parametern a, b und c vom Typ Zahl, Text und Buchstabe, gibt nichts zurück, macht:\n\tDie Zahl u ist 1.\n'
         'Und kann so benutzt werden:\n\t"G <a> <b> <c>" oder\n\t"G2 <c> <a> <b>"\n\n')
PUNKT = ('Wir nennen die Kombination aus\n\tder Zahl x mit Standardwert 0,\n\tdem Text n mit Standardwert "",\n\tder Kommazahl k mit Standardwert 1,0,\n'
         'einen Punkt, und erstellen sie so:\n\t"ein Punkt bei <x> namens <n> mit <k>"\n\n')


def inputs(tier, rng):
    ins = []   # (name, files)
    ins.append(("two-illtyped-args", {"main.ddp": FUNC2 + "F wahr 2,5.\n"}))
    ins.append(("three-illtyped-args", {"main.ddp": FUNC3 + "G wahr 2,5 7.\nG2 1 2 3.\n"}))
    ins.append(("two-undeclared-args", {"main.ddp": FUNC2 + "F nixda auchnix.\n"}))
    ins.append(("struct-literal-two-wrong-fields", {"main.ddp": PUNKT + 'Der Punkt p ist ein Punkt bei "a" namens 5 mit wahr.\n'}))
    ins.append(("generic-struct-three-ununified", {"main.ddp": "Wir nennen die generische Kombination aus\n\tdem T x,\n\tdem R y,\n\tdem S z,\n"
                                                   "einen Dreier, und erstellen sie so:\n\t\"der Nulldreier\"\n"}))
    a = ("Die öffentliche Zahl p ist 1. Die öffentliche Zahl q ist 2. Die öffentliche Zahl r ist 2.\n"
         "Die öffentliche Zahl s ist 3. Die öffentliche Zahl t ist 3.\nDie öffentliche Zahl u ist 3.\n")
    ins.append(("import-clashes-columns", {"a.ddp": a, "main.ddp": "Die Zahl q ist 7.\nDie Zahl r ist 7.\nDie Zahl s ist 7.\nDie Zahl t ist 7.\n"
                                                                  "Die Zahl u ist 7.\nBinde \"a\" ein.\n"}))
    ins.append(("import-clash-two-modules", {"a.ddp": a, "b.ddp": a.replace(" p ", " pp "),
                                             "main.ddp": 'Binde "a" ein.\nBinde "b" ein.\n'}))
    d = 'Die öffentliche Zahl dd ist 4.\n'
    ins.append(("diamond", {"d.ddp": d, "b.ddp": 'Binde "d" ein.\nDie öffentliche Zahl bb ist dd plus 1.\n',
                            "c.ddp": 'Binde "d" ein.\nDie öffentliche Zahl cc ist dd plus 2.\n',
                            "main.ddp": 'Binde "b" ein.\nBinde "c" ein.\nDie Zahl m ist bb plus cc.\n'}))
    ins.append(("aliases-same-rank", {"main.ddp":
        'Die Funktion eins mit dem Parameter a vom Typ Zahl, gibt eine Zahl zurück, macht:\n\tGib 1 zurück.\nUnd kann so benutzt werden:\n\t"wert <a> x"\n\n'
        'Die Funktion zwei mit dem Parameter a vom Typ Text, gibt eine Zahl zurück, macht:\n\tGib 2 zurück.\nUnd kann so benutzt werden:\n\t"wert <a> x"\n\n'
        'Die Zahl r ist (wert 5 x) plus (wert "t" x).\nDie Zahl q ist wert wahr x.\n'}))
    ins.append(("many-globals-and-scopes", {"main.ddp":
        'Der Text a ist "a".\nDer Text b ist "b".\nDie Text Liste l ist eine Liste, die aus a, b besteht.\nDie Variable v ist l.\n'
        'Die Funktion h mit den Parametern x, y und z vom Typ Text, Text und Text Liste, gibt einen Text zurück, macht:\n'
        '\tDer Text u ist x verkettet mit y.\n\tWenn die Länge von z größer als 1 ist, dann:\n\t\tDer Text w ist u verkettet mit u.\n\t\tGib w zurück.\n\tGib u zurück.\n'
        'Und kann so benutzt werden:\n\t"H <x> <y> <z>"\n\nDer Text r ist H a b l.\n'}))
    # repository programs (valid ones exercise imports of the Duden, generics, overloads)
    files = []
    for root in ("tests/testdata/kddp", "examples"):
        for dd, _, fs in os.walk(os.path.join(REPO, root)):
            for f in sorted(fs):
                if f.endswith(".ddp"):
                    files.append(os.path.join(dd, f))
    files.sort()
    pick = files if tier == "thorough" else [rng.choice(files) for _ in range(12)]
    for f in pick:
        try:
            src = open(f, encoding="utf-8").read()
        except Exception:
            continue
        base = os.path.dirname(f)
        fs = {}
        for dd, _, names in os.walk(base):
            for n in names:
                if n.endswith(".ddp"):
                    p = os.path.join(dd, n)
                    fs[os.path.relpath(p, base)] = open(p, encoding="utf-8", errors="replace").read()
        ins.append(("repo:" + os.path.relpath(f, REPO), dict(fs, **{os.path.basename(f): src}) if True else fs))
        ins[-1] = (ins[-1][0], ins[-1][1], os.path.basename(f))
    # token-level mutants of the crafted inputs (invalid programs with several diagnostics)
    base = list(ins[:10])
    for k in range(20 if tier == "quick" else 400):
        name, files = base[rng.below(len(base))][:2]
        src = files["main.ddp"]
        toks = src.split(" ")
        if len(toks) > 4:
            i = rng.below(len(toks))
            op = rng.below(3)
            if op == 0:
                del toks[i]
            elif op == 1:
                toks.insert(i, toks[rng.below(len(toks))])
            else:
                j = rng.below(len(toks))
                toks[i], toks[j] = toks[j], toks[i]
        ins.append(("mutant:%s:%d" % (name, k), dict(files, **{"main.ddp": " ".join(toks)})))
    return ins


def check(res, tier):
    rng = Rng(seed())
    broken = leanproj.prove(res, "Props.C16", "Props/C16.lean")
    harness = corr.build_harness()
    ddp = pipeline.build()
    ins = inputs(tier, rng)
    n_in = 64 if tier == "quick" else 256
    env = dict(os.environ)
    env["DDPPATH"] = ddp
    work = os.path.join(corr.CACHE, "work")
    os.makedirs(work, exist_ok=True)
    env["VERIF_WORK"] = work
    lines = []
    for it in ins:
        name, files = it[0], it[1]
        main = it[2] if len(it) > 2 else "main.ddp"
        lines.append("repeat %d %s" % (n_in, json.dumps({"files": files, "main": main}).encode().hex()))
    # one process per chunk; then the same requests again in fresh processes
    runs = [corr.run_lines(harness, lines, env=env, chunks=8)]
    for _ in range(2 if tier == "quick" else 6):
        runs.append(corr.run_lines(harness, ["repeat 4 " + l.split(" ", 2)[2] for l in lines], env=env, chunks=8))
    res.evaluations = len(lines) * (n_in + 4 * (len(runs) - 1))
    unstable = 0
    for k, it in enumerate(ins):
        name = it[0]
        outcomes = set()
        for r in runs:
            try:
                for o in json.loads(r[k]):
                    outcomes.add(o["outcome"])
            except Exception:
                outcomes.add("harness:" + r[k][:200])
        multi = len(outcomes) > 1
        if len(outcomes) >= 1:
            res.nontrivial(name)
        if multi:
            unstable += 1
            res.violation("unstable:" + name, "the same sources were judged differently in repeated compilations (%d distinct outcomes)" % len(outcomes),
                          {"input": name, "files": it[1], "distinct_outcomes": sorted(outcomes)[:6],
                           "note": "replay: harness `repeat 200 <request>`; Go re-randomises map iteration on every range"})
    # behaviour of executables built twice
    progs = [it for it in ins if it[0] in ("diamond", "many-globals-and-scopes")]
    for it in progs:
        outs = []
        for _ in range(3):
            files = dict(it[1])
            files["main.ddp"] = 'Binde "Duden/Ausgabe" ein.\n' + files["main.ddp"] + ('Schreibe m auf eine Zeile.\n' if it[0] == "diamond" else 'Schreibe r auf eine Zeile.\n')
            r = pipeline.compile_run(ddp, files, pipeline.Config(opt=1))
            outs.append((r.cls, r.stdout, r.exit))
        res.evaluations += 3
        if len(set(outs)) != 1:
            res.violation("behaviour:" + it[0], "executables built from the same sources behave differently", {"files": it[1], "runs": outs})
    # module graphs whose initialisers depend on each other (the generator of C10), each built several times
    from . import C10
    graph_rng = Rng(seed() + 1600)
    cases = [C10.gen_case(graph_rng, i % 2 == 1) for i in range(10 if tier == "quick" else 80)]
    reps = 6 if tier == "quick" else 12
    jobs, owner = [], []
    for ci, case in enumerate(cases):
        # any order serves as expectation here: only the agreement of the builds is judged
        files, _ = C10.build_program(case, lambda done, m: [] if m in done else [m])
        for _ in range(reps):
            jobs.append((files, pipeline.Config(opt=1), {}))
            owner.append(ci)
    gouts = pipeline.farm(ddp, jobs)
    for ci, case in enumerate(cases):
        rs = [(r.cls, r.stdout, r.exit) for r, o in zip(gouts, owner) if o == ci]
        res.evaluations += len(rs)
        res.nontrivial("graph:%d:%s" % (case[0], case[4]))
        if len(set(rs)) != 1:
            files, _ = C10.build_program(case, lambda done, m: [] if m in done else [m])
            res.violation("behaviour:module-graph:%d" % ci, "executables built from the same module graph behave differently from build to build (%d distinct behaviours in %d builds)" % (len(set(rs)), len(rs)),
                          {"files": files, "program": files["main.ddp"], "runs": [list(x) for x in sorted(set(rs))][:4]})
    # one generic function instantiated by several modules with types for which its body resolves to different overloads (one
    # only reads, one changes through a Referenz): what is decided per instantiation must not depend on the order in which a map
    # hands out the instantiating modules — built repeatedly at -O 2 (where such decisions become visible) and once at -O 0
    WZ = ('Binde "Duden/Ausgabe" ein.\n\nDie öffentliche Zahl gesamt ist 0.\n\n'
          'Die öffentliche Funktion Setze_Erstes mit dem Parameter l vom Typ Zahlen Listen Referenz, gibt nichts zurück, macht:\n\tSpeichere 99 in l an der Stelle 1.\nUnd kann so benutzt werden:\n\t"Bearbeite <l>"\n\n'
          'Die öffentliche Funktion Zaehle_Text mit dem Parameter t vom Typ Text, gibt nichts zurück, macht:\n\tErhöhe gesamt um die Länge von t.\nUnd kann so benutzt werden:\n\t"Bearbeite <t>"\n\n'
          'Die öffentliche generische Funktion Verarbeite mit dem Parameter x vom Typ T, gibt nichts zurück, macht:\n\tBearbeite x.\nUnd kann so benutzt werden:\n\t"Verarbeite <x>"\n\n'
          'Die öffentliche Funktion Probe gibt eine Zahl zurück, macht:\n\tDie Zahlen Liste liste ist eine Liste, die aus 1, 2, 3 besteht.\n\tVerarbeite liste.\n\tGib liste an der Stelle 1 zurück.\n'
          'Und kann so benutzt werden:\n\t"die Probe"\n')
    gjobs, gown, gprogs = [], [], []
    for nmod in (1, 2, 4):
        files = {"werkzeug.ddp": WZ}
        main = 'Binde "Duden/Ausgabe" ein.\nBinde "werkzeug" ein.\n'
        for k in range(nmod):
            files["nutzer%d.ddp" % k] = ('Binde "werkzeug" ein.\n\nDie öffentliche Funktion Gruss%d gibt nichts zurück, macht:\n\tDer Text gruss ist "hallo%d".\n\tVerarbeite gruss.\n'
                                         'Und kann so benutzt werden:\n\t"Grüße%d"\n' % (k, k, k))
            main += 'Binde "nutzer%d" ein.\n' % k
        main += "".join("Grüße%d.\n" % k for k in range(nmod)) + "Schreibe gesamt auf eine Zeile.\nSchreibe (die Probe) auf eine Zeile.\n"
        files["main.ddp"] = main
        gprogs.append(files)
        for cfg in [pipeline.Config(opt=0)] + [pipeline.Config(opt=2)] * (8 if tier == "quick" else 24):
            gjobs.append((files, cfg, {}))
            gown.append(len(gprogs) - 1)
    grs = pipeline.farm(ddp, gjobs)
    for gi, files in enumerate(gprogs):
        rs = [(r.cls, r.stdout, r.exit) for r, o in zip(grs, gown) if o == gi]
        res.evaluations += len(rs)
        res.nontrivial("generic-across-modules:%d" % gi)
        if len(set(rs)) != 1:
            res.violation("behaviour:generic-across-modules:%d" % gi, "executables built from the same sources behave differently from build to build (%d distinct behaviours in %d builds, "
                          "the first one at -O 0, the others at -O 2)" % (len(set(rs)), len(rs)),
                          {"files": files, "program": files["main.ddp"], "runs": [list(x) for x in sorted(set(rs))][:4]})
    res.extra.update({"inputs": len(ins), "in_process_repetitions": n_in, "module_graphs_built_repeatedly": len(cases), "builds_per_graph": reps, "fresh_process_rounds": len(runs) - 1, "unstable_inputs": unstable,
                      "order_sites": len(json.load(open(os.path.join(leanproj.LEAN, "DDP", "Generated", "OrderSites.json"))))})
    res.rule = ("crafted inputs that put >=2 candidates at every classified site (several ill-typed/undeclared arguments, struct literal "
                "fields, un-unifiable generic fields, colliding imported names at decreasing columns, diamond imports, equal-rank aliases, "
                "many non-primitive variables), repository programs, token-level mutants; each parsed %d times in one process and 4 times "
                "in each of %d fresh processes; outcome = verdict + diagnostic sequence (code, file, range, message)") % (n_in, len(runs) - 1)
    for k in (0, 4, len(ins) - 1):
        try:
            res.sample({"input": ins[k][0], "outcomes": json.loads(runs[0][k])[:2]})
        except Exception:
            pass
    res.assumptions += ["the system linker and LLVM's module linker do not depend on argument order (class linkArgs)",
                        "runtime orders are sampled: the sweep only supports the search; the decision is the theorems + site inventory"]
    for bk in broken:
        res.violation("obligation:" + bk["name"], "proof obligation no longer checks: %s" % bk["name"],
                      {"theorem": bk["name"], "detail": bk["detail"], "kind": "broken-obligation",
                       "hint": "site_inventory_covered fails when the source gained an order-sensitive site (map range / sort) that is not classified"},
                      has_input=False)

"""C11 — optimisation level and link mode do not change program behaviour.

Theorems: lean/Props/C11.lean.  Tie: every program (alias matrix of C08, operator matrix of C01,
random single-file programs, random programs split into two modules) is compiled under every
configuration {-O 0,1,2} x {modules linked into one LLVM module | every module an object of its
own (verif hook)} x {list definitions linked in | linked as object}, and all runs must agree with
each other (stdout, stderr, exit status) and with the evaluator."""
from collections import Counter

from .. import leanproj, pipeline, evalcorr, gen
from ..common import Rng, seed
from ..corr import build_model
from . import C01, C08


def all_configs():
    out = []
    for opt in (0, 1, 2):
        for mod in (True, False):
            for ld in (True, False):
                out.append(pipeline.Config(opt=opt, module_link=mod, listdefs_link=ld))
    return out


def differential(res, ddp, model, programs, cfgs, label, max_report=3):
    st = Counter()
    if not programs:
        return st
    mo = evalcorr.model_eval(model, programs)
    rs = evalcorr.run_programs(ddp, programs, cfgs)
    reported = 0
    for p, (o, so), rrs in zip(programs, mo, rs):
        ref = rrs[0]
        st["model:" + o.split(":")[0]] += 1
        if ref.cls == "compile-rejected":
            st["generator-ill-typed"] += 1
            continue
        for cfg, rr in zip(cfgs, rrs):
            res.evaluations += 1
            st["%s:%s" % (cfg.name(), rr.cls)] += 1
            why = None
            if (rr.cls, rr.exit, rr.stdout, rr.stderr) != (ref.cls, ref.exit, ref.stdout, ref.stderr):
                why = "behaviour under %s differs from %s: %s/%s vs %s/%s" % (cfg.name(), cfgs[0].name(), rr.cls, rr.exit, ref.cls, ref.exit)
            else:
                d = evalcorr.compare(o, so, rr)
                if d is None and evalcorr.expected_class(o) is not None and rr.cls not in ("ok", "laufzeitfehler"):
                    d = "the program ended as " + rr.cls
                if d:
                    why = "%s disagrees with the evaluation rules: %s" % (cfg.name(), d)
            if why is None:
                res.nontrivial("%s:%s:%s:%d" % (label, cfg.name(), rr.cls, len(rr.stdout)))
                continue
            if reported >= max_report:
                st["further-disagreements"] += 1
                continue
            reported += 1

            def still(q, cfg=cfg):
                q = dict(q)
                a, b = evalcorr.run_programs(ddp, [q], [cfgs[0], cfg])[0]
                if a.cls == "compile-rejected":
                    return False
                if (a.cls, a.exit, a.stdout, a.stderr) != (b.cls, b.exit, b.stdout, b.stderr):
                    return True
                return evalcorr.disagreement(ddp, model, q, cfg) is not None
            small = evalcorr.minimise(p, still, budget=200)
            a, b = evalcorr.run_programs(ddp, [small], [cfgs[0], cfg])[0]
            (o2, so2), = evalcorr.model_eval(model, [small])
            files = evalcorr.files_of(small)
            res.violation("%s:%s:%s" % (label, cfg.name(), evalcorr._fingerprint(small)), why,
                          {"program": files.get("main.ddp"), "files": files, "sexpr": gen.sx_program(small), "config": cfg.name(),
                           "reference_config": cfgs[0].name(), "model": {"outcome": o2, "stdout": so2},
                           "implementation": b.as_dict(), "reference_run": a.as_dict()})
    return st


def error_origin_programs(quick=True):
    """two modules that use different built-in Laufzeitfehler messages; the error fires in one of them; the modules
    contain different numbers of other constants (text literals) before that. (label, files): behaviour is compared
    across configurations only"""
    H = 'Binde "Duden/Ausgabe" ein.\n'
    decl = {"index": "Die Zahlen Liste %sl ist eine Liste, die aus 10, 20, 30 besteht.\n", "slice": "Die Zahlen Liste %sl ist eine Liste, die aus 10, 20, 30 besteht.\n",
            "cast": "Die Variable %sv ist 7.\nDie Variable %sw ist wahr.\n", "todo": "Die Zahl %sz ist 1.\n"}
    use = {"index": "Schreibe (%sl an der Stelle 2) auf eine Zeile.\n", "cast": "Schreibe (%sv als Zahl) auf eine Zeile.\n",
           "slice": "Schreibe (die Länge von (%sl im Bereich von 1 bis 2)) auf eine Zeile.\n",
           "todo": "Wenn %sz gleich 11 ist, dann:\n\t...\n"}
    fire = {"index": "Schreibe (%sl an der Stelle 9) auf eine Zeile.\n", "cast": "Schreibe (%sw als Zahl) auf eine Zeile.\n",
            "slice": "Schreibe (die Länge von (%sl im Bereich von 3 bis 1)) auf eine Zeile.\n", "todo": "...\n"}

    def fill(t, pre):
        return t % tuple([pre] * t.count("%s"))

    def tab(src):
        return "".join("\t" + l + "\n" for l in src.rstrip("\n").split("\n"))

    def texts(pre, n):
        return "".join('Der Text %st%d ist "%s%d".\n' % (pre, i, pre, i) for i in range(n))
    out = []
    k = 0
    for a in use:
        for b in fire:
            if a == b:
                continue
            shapes = [(k % 3, (k // 3) % 3)] if quick and not (a, b) in (("cast", "index"), ("index", "todo")) else [(i, j) for i in range(3) for j in range(3)]
            k += 1
            for nm, nl in shapes:
                # the imported module fires b, the main module has used a before
                lib = H + texts("m", nl) + ("Die öffentliche Funktion loese_aus gibt nichts zurück, macht:\n" + tab(fill(decl[b], "m") + fill(fire[b], "m")) +
                                            "Und kann so benutzt werden:\n\t\"löse aus\"\n")
                main = (H + 'Binde "lib" ein.\n' + texts("h", nm) + fill(decl[a], "h") + fill(use[a], "h") +
                        'Schreibe 1 auf eine Zeile.\nlöse aus.\nSchreibe 2 auf eine Zeile.\n')
                out.append(("error-origin:lib-fires-%s:main-uses-%s:%d-%d" % (b, a, nm, nl), {"lib.ddp": lib, "main.ddp": main}))
                # the main module fires b, the imported module uses a (in a function that is called first)
                lib2 = H + texts("m", nl) + ("Die öffentliche Funktion benutze gibt nichts zurück, macht:\n" + tab(fill(decl[a], "m") + fill(use[a], "m")) +
                                             "Und kann so benutzt werden:\n\t\"benutze es\"\n")
                main2 = (H + 'Binde "lib" ein.\n' + texts("h", nm) + fill(decl[b], "h") + 'benutze es.\nSchreibe 1 auf eine Zeile.\n' + fill(fire[b], "h") +
                         'Schreibe 2 auf eine Zeile.\n')
                out.append(("error-origin:main-fires-%s:lib-uses-%s:%d-%d" % (b, a, nm, nl), {"lib.ddp": lib2, "main.ddp": main2}))
    return out


def plain_differential(res, ddp, labelled, cfgs, st):
    jobs = [(files, cfg, {}) for _, files in labelled for cfg in cfgs]
    outs = pipeline.farm(ddp, jobs)
    k = len(cfgs)
    for i, (label, files) in enumerate(labelled):
        rrs = outs[i * k:(i + 1) * k]
        ref = rrs[0]
        for cfg, rr in zip(cfgs, rrs):
            res.evaluations += 1
            st["%s:%s" % (cfg.name(), rr.cls)] += 1
            res.nontrivial("%s:%s:%s" % (label, cfg.name(), rr.cls))
            bad = None
            if ref.cls not in ("ok", "laufzeitfehler"):
                bad = "the program ends as %s under %s: %s" % (ref.cls, cfgs[0].name(), (ref.compile_out or ref.stderr)[-300:])
            elif (rr.cls, rr.exit, rr.stdout, rr.stderr) != (ref.cls, ref.exit, ref.stdout, ref.stderr):
                bad = "behaviour under %s differs from %s: %s/%s %r vs %s/%s %r" % (cfg.name(), cfgs[0].name(), rr.cls, rr.exit, rr.stderr[-160:], ref.cls, ref.exit, ref.stderr[-160:])
            if bad:
                res.violation("%s:%s" % (label, cfg.name()), bad, {"files": files, "program": files["main.ddp"], "config": cfg.name(), "reference_config": cfgs[0].name(),
                                                                    "implementation": rr.as_dict(), "reference_run": ref.as_dict()})
                break


def check(res, tier):
    sd = seed()
    rng = Rng(sd)
    broken = leanproj.prove(res, "Props.C11", "Props/C11.lean")
    model = build_model()
    ddp = pipeline.build()
    quick = tier == "quick"
    if quick:
        cfgs = [pipeline.Config(opt=1), pipeline.Config(opt=0), pipeline.Config(opt=2),
                pipeline.Config(opt=2, module_link=False), pipeline.Config(opt=0, module_link=False, listdefs_link=False)]
    else:
        cfgs = all_configs()
        cfgs.sort(key=lambda c: (c.opt != 1, not c.module_link, not c.listdefs_link))
    alias = [p for _, p in C08.programs()]
    if quick:
        alias = [p for i, p in enumerate(alias) if i % 3 == sd % 3 or "readonly" in ""]
        alias += [p for l, p in C08.programs() if any(k in l for k in ("readonly", "silent", "foreach-local", "return-own", "recursive"))]
    st1 = differential(res, ddp, model, alias, cfgs, "alias-matrix")
    mprogs, cells, nsingles = C01.matrix_programs(model, rng, 2 if quick else 8)
    st2 = differential(res, ddp, model, mprogs, cfgs, "operator-matrix")
    single = C01.random_programs(sd + 101, 60 if quick else 800)
    st3 = differential(res, ddp, model, single, cfgs, "random")
    split = C01.random_programs(sd + 211, 60 if quick else 800, feats={"structs": True, "funcs": True, "variable": True, "modules": True})
    for p in split:
        p["as_modules"] = True
    st4 = differential(res, ddp, model, split, cfgs, "random-two-modules")
    st5 = Counter()
    origin = error_origin_programs(quick)
    plain_differential(res, ddp, origin, cfgs, st5)
    evalcorr.report_broken(res, broken)
    res.extra.update({"configs": [c.name() for c in cfgs], "alias_matrix_programs": len(alias), "error_origin_programs": len(origin), "outcomes_error_origin": dict(st5), "operator_matrix_batches": len(mprogs),
                      "operator_matrix_cells": nsingles, "random_programs": len(single), "random_two_module_programs": len(split),
                      "outcomes": {"alias": dict(st1), "operators": dict(st2), "random": dict(st3), "modules": dict(st4)}})
    res.rule = ("each program under every configuration (-O 0/1/2; modules linked into one LLVM module or compiled to objects of "
                "their own; list definitions linked in or as object): stdout, stderr, exit status identical across configurations "
                "and equal to the evaluator's verdict; programs: Referenz/value aliasing matrix incl. read-only (constant) "
                "parameters, operator matrix with boundary operands, random programs, random programs split into two modules, every "
                "pair of built-in Laufzeitfehler kinds with one used in one module and the other firing in the other module")
    res.assumptions += ["'kept separate' is realised by the verif hook compiler.VerifCompileSeparate (no kddp command line compiles an "
                        "imported module on its own); LLVM's passes and the system linker are trusted, not modelled"]

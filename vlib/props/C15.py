"""C15 — a generic call behaves like its monomorphic specialisation.

Theorems: lean/Props/C15.lean (model of UnifyGenericType / instantiation identity).  Ties:
(1) `unify` requests: the real ddptypes.UnifyGenericType against the model on generated argument /
parameter type terms; (2) random programs whose functions are made generic in one parameter type:
the generic program, its textual specialisation and the evaluator must agree, in one file and with
the generic function in another module; (3) generic Kombinationen: fixed programs for "equal type
arguments = one type, different = different types" and for conflicting bindings."""
from collections import Counter

from .. import leanproj, pipeline, evalcorr, gen, corr
from ..common import Rng, seed
from ..corr import build_model
from .C01 import random_programs

# ---------------------------------------------------------------- unify requests
PRIMS = ["Z", "K", "B", "W", "C", "T", "V", "P1", "P2"]


def closed(r, d):
    c = r.below(10)
    if d <= 0 or c < 5:
        return r.choice(PRIMS)
    if c < 8:
        return "L(%s)" % closed(r, d - 1)
    s = r.below(3)
    return "I%d(%s)" % (s, ",".join(closed(r, d - 1) for _ in range(s + 1)))


def param(r, d, nvars):
    """parameter types as the parser builds them: T, T Liste(n), concrete, generic Kombination with
    type parameters or concrete types in argument position"""
    c = r.below(10)
    if c < 3:
        return "G%d" % r.below(nvars)
    if c < 5 and d > 0:
        return "L(%s)" % param(r, d - 1, nvars)
    if c < 8:
        s = r.below(3)
        return "I%d(%s)" % (s, ",".join(("G%d" % r.below(nvars)) if r.below(3) else closed(r, 1) for _ in range(s + 1)))
    return closed(r, d)


def instantiate(p, binding, r):
    """an argument type for parameter type p: mostly the instance under `binding`, sometimes perturbed"""
    out = p
    for k, v in binding.items():
        out = out.replace(k, v)
    return out


def unify_requests(rng, n):
    class R:
        def below(self, k):
            return rng.below(k)

        def choice(self, xs):
            return xs[rng.below(len(xs))]
    r = R()
    reqs = []
    for _ in range(n):
        nvars = 1 + r.below(3)
        binding = {"G%d" % i: closed(r, 2) for i in range(nvars)}
        pairs = []
        for _ in range(1 + r.below(4)):
            p = param(r, 2, nvars)
            if r.below(10) < 7:
                a = instantiate(p, binding, r)
            else:
                # a conflicting or unrelated argument
                other = {k: closed(r, 2) for k in binding}
                a = instantiate(p, other, r) if r.below(2) else closed(r, 2)
            pairs.append("%s|%s" % (a, p))
        reqs.append("unify " + ";".join(pairs))
    return reqs


# ---------------------------------------------------------------- generic Kombinationen (fixed programs)
KOMBI = '''Binde "Duden/Ausgabe" ein.

Wir nennen die generische Kombination aus
	dem T a,
	dem R b,
einen Paar, und erstellen sie so:
	"Paar(<a>, <b>)"

Wir nennen die generische Kombination aus
	dem T x,
einen Solo, und erstellen sie so:
	"Solo(<x>)"

Die generische Funktion erstes mit dem Parameter p vom Typ T-R-Paar, gibt ein T zurück, macht:
	Gib a von p zurück.
Und kann so benutzt werden:
	"erstes <p>"

Die generische Funktion zwei mit den Parametern p und q vom Typ T und T, gibt ein T zurück, macht:
	Gib q zurück.
Und kann so benutzt werden:
	"zwei <p> <q>"

Die Funktion nimm mit dem Parameter p vom Typ Zahl-Text-Paar, gibt eine Zahl zurück, macht:
	Gib a von p zurück.
Und kann so benutzt werden:
	"nimm <p>"

'''
POSITIVE = [
    ("same-arguments-one-type",
     'Der Zahl-Text-Paar p1 ist Paar(1, "a").\nDer Zahl-Text-Paar p2 ist Paar(2, "b").\nSpeichere p2 in p1.\nSchreibe (a von p1) auf eine Zeile.\n'
     'Schreibe (nimm p1) auf eine Zeile.\nSchreibe (nimm (Paar(7, "x"))) auf eine Zeile.\nSchreibe (p1 gleich p2 ist) auf eine Zeile.\n',
     "2\n2\n7\nwahr\n"),
    ("generic-function-over-generic-kombination",
     'Der Zahl-Text-Paar p1 ist Paar(5, "a").\nDer Text-Zahl-Paar p2 ist Paar("t", 3).\nSchreibe (erstes p1) auf eine Zeile.\nSchreibe (erstes p2) auf eine Zeile.\n',
     "5\nt\n"),
    ("same-parameter-twice",
     'Schreibe (zwei 1 2) auf eine Zeile.\nSchreibe (zwei "a" "b") auf eine Zeile.\nDer Zahl-Solo s ist Solo(4).\nSchreibe (x von (zwei s (Solo(9)))) auf eine Zeile.\n',
     "2\nb\n9\n"),
    ("instantiation-named-inside-generic-body",
     'Die generische Funktion pack mit dem Parameter v vom Typ T, gibt einen T-Solo zurück, macht:\n\tDer T-Solo k ist Solo(v).\n\tGib k zurück.\n'
     'Und kann so benutzt werden:\n\t"pack <v>"\n\n'
     'Der Zahl-Solo s ist pack 4.\nSchreibe (x von s) auf eine Zeile.\nDer Text-Solo t ist pack "w".\nSchreibe (x von t) auf eine Zeile.\n'
     'Der Zahl-Solo s2 ist Solo(9).\nSpeichere s2 in s.\nSchreibe (x von s) auf eine Zeile.\n',
     "4\nw\n9\n"),
    ("alias-as-type-argument",
     'Wir nennen eine Zahl auch eine Ganzzahl.\nDer Ganzzahl-Solo g ist Solo(5).\nDer Zahl-Solo s ist Solo(1).\nSpeichere g in s.\nSchreibe (x von s) auf eine Zeile.\n'
     'Der Ganzzahl-Text-Paar gp ist Paar(2, "q").\nSchreibe (nimm gp) auf eine Zeile.\n',
     "5\n2\n"),
    ("list-of-instantiation",
     'Die Zahl-Solo Liste l ist eine Liste, die aus (Solo(1)), (Solo(2)) besteht.\nSchreibe (x von (l an der Stelle 2)) auf eine Zeile.\n',
     "2\n"),
]
NEGATIVE = [
    ("different-arguments-different-types", 'Der Zahl-Text-Paar p1 ist Paar(1, "a").\nDer Text-Zahl-Paar p2 ist Paar("b", 2).\nSpeichere p2 in p1.\n'),
    ("different-arguments-argument", 'Der Text-Zahl-Paar p2 ist Paar("b", 2).\nSchreibe (nimm p2) auf eine Zeile.\n'),
    ("one-parameter-two-types", 'Schreibe (zwei 1 "a") auf eine Zeile.\n'),
    ("one-parameter-two-instantiations", 'Der Zahl-Text-Paar pa ist Paar(1, "a").\nDer Zahl-Solo so ist Solo(1).\nSchreibe (x von (zwei pa so)) auf eine Zeile.\n'),
    ("one-parameter-list-and-element", 'Die generische Funktion le mit den Parametern l und e vom Typ T Liste und T, gibt ein T zurück, macht:\n\tGib e zurück.\n'
                                       'Und kann so benutzt werden:\n\t"le <l> <e>"\nSchreibe (le (eine Liste, die aus 1, 2 besteht) "a") auf eine Zeile.\n'),
]

# generic functions instantiated from another module than the one that declares them
def _scoping_programs():
    """a generic function's body names things of its declaring module; the calling module has other things under the same
    names: the generic call behaves like the specialisation written in the declaring module"""
    H = 'Binde "Duden/Ausgabe" ein.\n'
    out = []
    kinds = {
        "type-alias": ("Wir nennen eine Zahl auch eine Menge.\n", "Wir nennen eine Kommazahl auch eine Menge.\nDie Menge eigene ist 2,5.\nSchreibe eigene auf eine Zeile.\n",
                       "\tDie Menge g ist a als Menge.\n\tGib g als Text zurück.\n", "7,75", "2.5\n7\n7\n7\n"),
        "type-definition": ("Wir definieren eine Menge als eine Zahl.\n", "Wir definieren eine Menge als eine Kommazahl.\nDie Menge eigene ist 2,5 als Menge.\nSchreibe (eigene als Kommazahl) auf eine Zeile.\n",
                            "\tDie Menge g ist (a als Zahl) als Menge.\n\tGib (g als Zahl) als Text zurück.\n", "7,75", "2.5\n7\n7\n7\n"),
        "kombination": ('Wir nennen die Kombination aus\n\tder Zahl wert mit Standardwert 1,\neine Menge, und erstellen sie so:\n\t"eine Menge von <wert>"\n',
                        'Wir nennen die Kombination aus\n\tdem Text wert mit Standardwert "eigen",\neine Menge, und erstellen sie so:\n\t"eine Menge mit <wert>"\n'
                        'Die Menge eigene ist eine Menge mit "e".\nSchreibe (wert von eigene) auf eine Zeile.\n',
                        "\tDie Menge g ist eine Menge von (a als Zahl).\n\tGib (wert von g) als Text zurück.\n", "7,75", "e\n7\n7\n7\n"),
        "global-variable": ("Die Zahl menge ist 100.\n", "Die Zahl menge ist 5.\nSchreibe menge auf eine Zeile.\n",
                            "\tGib ((a als Zahl) plus menge) als Text zurück.\n", "7,75", "5\n107\n107\n107\n"),
        "constant": ("Die Konstante MENGE ist 100.\n", "Die Konstante MENGE ist 5.\nSchreibe MENGE auf eine Zeile.\n",
                     "\tGib ((a als Zahl) plus MENGE) als Text zurück.\n", "7,75", "5\n107\n107\n107\n"),
        "private-function": ('Die Funktion hilfe mit dem Parameter n vom Typ Zahl, gibt eine Zahl zurück, macht:\n\tGib n plus 100 zurück.\nUnd kann so benutzt werden:\n\t"die Hilfe für <n>"\n',
                             'Die Funktion hilfe mit dem Parameter n vom Typ Zahl, gibt eine Zahl zurück, macht:\n\tGib n plus 5 zurück.\nUnd kann so benutzt werden:\n\t"meine Hilfe für <n>"\n'
                             'Schreibe (meine Hilfe für 0) auf eine Zeile.\n',
                             "\tGib (die Hilfe für (a als Zahl)) als Text zurück.\n", "7,75", "5\n107\n107\n107\n"),
    }
    for name, (libdecl, maindecl, body, arg, want) in kinds.items():
        lib = (H + libdecl + "\nDie öffentliche generische Funktion gerundet mit dem Parameter a vom Typ T, gibt einen Text zurück, macht:\n" + body +
               'Und kann so benutzt werden:\n\t"<a> gerundet"\n\n'
               "Die öffentliche Funktion gerundet_kommazahl mit dem Parameter a vom Typ Kommazahl, gibt einen Text zurück, macht:\n" + body +
               'Und kann so benutzt werden:\n\t"<a> als Kommazahl gerundet"\n\n'
               'Die öffentliche Funktion im_modul mit dem Parameter a vom Typ Kommazahl, gibt einen Text zurück, macht:\n\tGib a gerundet zurück.\nUnd kann so benutzt werden:\n\t"<a> im Modul gerundet"\n')
        main = (H + 'Binde gerundet, gerundet_kommazahl und im_modul aus "lib" ein.\n' + maindecl +
                "Schreibe (%s als Kommazahl gerundet) auf eine Zeile.\nSchreibe (%s im Modul gerundet) auf eine Zeile.\nSchreibe (%s gerundet) auf eine Zeile.\n" % (arg, arg, arg))
        out.append(("names-of-the-declaring-module:" + name, {"lib.ddp": lib, "main.ddp": main}, want))
    return out


MODULE_PROGRAMS = _scoping_programs() + [
    ("aliases-of-the-instantiating-module", {
        "lib.ddp": 'Die öffentliche generische Funktion zweimal mit dem Parameter x vom Typ T, gibt nichts zurück, macht:\n\tMelde x.\n\tMelde x.\nUnd kann so benutzt werden:\n\t"Verarbeite <x> doppelt"\n',
        "main.ddp": 'Binde "Duden/Ausgabe" ein.\nBinde "lib" ein.\n\nDie Funktion melde_zahl mit dem Parameter z vom Typ Zahl, gibt nichts zurück, macht:\n\tSchreibe "Meldung: ".\n\tSchreibe z auf eine Zeile.\n'
                    'Und kann so benutzt werden:\n\t"Melde <z>"\n\nDie Funktion melde_text mit dem Parameter z vom Typ Text, gibt nichts zurück, macht:\n\tSchreibe "Text: ".\n\tSchreibe z auf eine Zeile.\n'
                    'Und kann so benutzt werden:\n\t"Melde <z>"\n\nMelde 7.\nVerarbeite 21 doppelt.\nVerarbeite "t" doppelt.\n'},
     "Meldung: 7\nMeldung: 21\nMeldung: 21\nText: t\nText: t\n"),
    ("operator-overloads-of-the-declaring-module", {"lib.ddp": 'Binde "Duden/Ausgabe" ein.\nWir nennen die öffentliche Kombination aus\n\tder öffentlichen Zahl x mit Standardwert 0,\neinen Vek, und erstellen sie so:\n\t"Vek <x>"\n\nDie öffentliche Funktion vekplus mit den Parametern a und b vom Typ Vek und Vek, gibt einen Vek zurück, macht:\n\tGib Vek ((x von a) plus (x von b)) zurück.\nUnd überlädt den "plus" Operator.\n\nDie öffentliche generische Funktion Summiere mit den Parametern a und b vom Typ T und T, gibt ein T zurück, macht:\n\tGib a plus b zurück.\nUnd kann so benutzt werden:\n\t"summiere <a> <b>"\n\nDie öffentliche Funktion SummiereVek mit den Parametern a und b vom Typ Vek und Vek, gibt einen Vek zurück, macht:\n\tGib a plus b zurück.\nUnd kann so benutzt werden:\n\t"summierevek <a> <b>"\n', "main.ddp": 'Binde "Duden/Ausgabe" ein.\nBinde Vek, Summiere und SummiereVek aus "lib" ein.\n\nDie Funktion vekmal mit den Parametern a und b vom Typ Vek und Vek, gibt einen Vek zurück, macht:\n\tGib Vek ((x von a) mal (x von b)) zurück.\nUnd überlädt den "plus" Operator.\n\nDer Vek v ist Vek 3.\nDer Vek w ist Vek 4.\nSchreibe (x von (summierevek v w)) auf eine Zeile.\nSchreibe (x von (summiere v w)) auf eine Zeile.\nSchreibe (x von (v plus w)) auf eine Zeile.\nSchreibe (summiere 3 4) auf eine Zeile.\n'}, "7\n7\n12\n7\n"),
]


def instantiation_matrix(rng, quick):
    """one generic function instantiated with many types in one module, in varying orders: every call has to behave like
    its own specialisation (the body calls an overloaded function, so a wrong instantiation prints a wrong tag)"""
    H = ('Binde "Duden/Ausgabe" ein.\nWir definieren eine Hausnummer als eine Zahl.\nWir definieren eine Postleitzahl als eine Zahl.\n'
         'Wir definieren einen Namen als einen Text.\nWir nennen eine Zahl auch eine Strecke.\n'
         'Wir nennen die Kombination aus\n\tder Zahl px mit Standardwert 0,\neinen Punkt, und erstellen sie so:\n\t"Punkt <px>"\n\n'
         'Wir nennen die Kombination aus\n\tder Zahl kx mit Standardwert 0,\neinen Kreis, und erstellen sie so:\n\t"Kreis <kx>"\n\n')
    pool = [("Zahl", "5", "Zahl"), ("Kommazahl", "2,5", "Kommazahl"), ("Text", '"t"', "Text"), ("Buchstabe", "'b'", "Buchstabe"),
            ("Wahrheitswert", "wahr", "Wahrheitswert"), ("Byte", "(7 als Byte)", "Byte"), ("Zahlen Liste", "(eine Liste, die aus 1, 2 besteht)", "Zahlen Liste"),
            ("Text Liste", '(eine Liste, die aus "a" besteht)', "Text Liste"), ("Hausnummer", "(22 als Hausnummer)", "Hausnummer"),
            ("Postleitzahl", "(10115 als Postleitzahl)", "Postleitzahl"), ("Namen", '("n" als Namen)', "Namen"), ("Strecke", "3", "Zahl"),
            ("Punkt", "(Punkt 1)", "Punkt"), ("Kreis", "(Kreis 2)", "Kreis")]
    decls = ""
    for i, (t, _, tag) in enumerate(pool):
        if t == "Strecke":
            continue       # an alias of Zahl is Zahl: it has no overload of its own
        decls += ('Die Funktion art%d mit dem Parameter x vom Typ %s, gibt nichts zurück, macht:\n\tSchreibe "%s" auf eine Zeile.\nUnd kann so benutzt werden:\n\t"art <x>"\n\n' % (i, t, tag))
    decls += ('Die generische Funktion kennung mit dem Parameter a vom Typ T, gibt nichts zurück, macht:\n\tart a.\nUnd kann so benutzt werden:\n\t"kennung <a>"\n\n'
              'Die generische Funktion doppelt mit den Parametern a und b vom Typ T und R, gibt nichts zurück, macht:\n\tart a.\n\tart b.\nUnd kann so benutzt werden:\n\t"doppelt <a> <b>"\n\n')
    # bodies that name the type parameter themselves (a local of type T, a call of another generic function with it)
    decls += ('Die generische Funktion behalten mit dem Parameter a vom Typ T, gibt ein T zurück, macht:\n\tDas T lokal ist a.\n\tGib lokal zurück.\nUnd kann so benutzt werden:\n\t"behalten <a>"\n\n'
              'Die generische Funktion weiter mit dem Parameter a vom Typ T, gibt nichts zurück, macht:\n\tDas T innen ist behalten a.\n\tkennung innen.\nUnd kann so benutzt werden:\n\t"weiter <a>"\n\n')
    vars_ = "".join("%s %s var%d ist %s.\n" % ({"Zahl": "Die", "Kommazahl": "Die", "Zahlen Liste": "Die", "Text Liste": "Die", "Hausnummer": "Die", "Postleitzahl": "Die",
                                                  "Strecke": "Die"}.get(t, "Der"), t, i, e.strip("()") if t in ("Zahlen Liste", "Text Liste") else e) for i, (t, e, _) in enumerate(pool))
    orders = [list(range(len(pool))), list(reversed(range(len(pool))))]
    for _ in range(2 if quick else 30):
        orders.append(rng.shuffle(list(range(len(pool)))))
    out = []
    for oi, order in enumerate(orders):
        body, exp = "", ""
        for i in order:
            body += "kennung var%d.\n" % i
            exp += pool[i][2] + "\n"
        for i in (order if oi % 2 == 0 else reversed(order)):
            body += "weiter var%d.\n" % i
            exp += pool[i][2] + "\n"
        for i, j in zip(order, order[1:]):
            body += "doppelt var%d var%d.\n" % (i, j)
            exp += pool[i][2] + "\n" + pool[j][2] + "\n"
        out.append(("instantiations:order-%d" % oi, H + decls + vars_ + body, exp))
    return out


def effect_programs():
    """(label, generic source, hand-specialised source): one generic function whose body calls an overloaded function — for one
    type the overload only reads its (value) parameter, for the other it takes a Referenz and changes it. Instantiated with both
    types in both orders, from a function (argument: a local) and from the top level (argument: a global): the caller's
    variables are never changed (the generic parameter is a value parameter), whatever the first instantiation looked like."""
    T = {"Text Liste": ('eine Liste, die aus "a", "b" besteht', '"X"', "Die"), "Zahlen Liste": ("eine Liste, die aus 1, 2, 3 besteht", "99", "Die"),
         "Text": ('"abc"', "'X'", "Der")}
    out = []
    for ro, rw in (("Text Liste", "Zahlen Liste"), ("Zahlen Liste", "Text Liste"), ("Zahlen Liste", "Text"), ("Text", "Zahlen Liste")):
        for order in ("readonly-first", "mutating-first"):
            for caller in ("local", "global"):
                ovl = ('Die Funktion Markiere_A mit dem Parameter l vom Typ %s, gibt eine Zahl zurück, macht:\n\tGib die Länge von l zurück.\nUnd kann so benutzt werden:\n\t"markiere <l>"\n\n'
                       'Die Funktion Markiere_B mit dem Parameter l vom Typ %s, gibt eine Zahl zurück, macht:\n\tSpeichere %s in l an der Stelle 1.\n\tGib die Länge von l zurück.\n'
                       'Und kann so benutzt werden:\n\t"markiere <l>"\n\n' % (ro, rw.replace(" Liste", " Listen") + " Referenz", T[rw][1]))
                gen_ = 'Die generische Funktion Zaehle mit dem Parameter x vom Typ T, gibt eine Zahl zurück, macht:\n\tGib markiere x zurück.\nUnd kann so benutzt werden:\n\t"zähle <x>"\n\n'
                mono = "".join('Die Funktion Zaehle_%d mit dem Parameter x vom Typ %s, gibt eine Zahl zurück, macht:\n\tGib markiere x zurück.\nUnd kann so benutzt werden:\n\t"zähle <x>"\n\n' % (i, t)
                               for i, t in enumerate((ro, rw)))
                decl = ["%s %s a ist %s." % (T[ro][2], ro, T[ro][0]), "%s %s b ist %s." % (T[rw][2], rw, T[rw][0])]
                calls = ["Schreibe (zähle a) auf eine Zeile.", "Schreibe (zähle b) auf eine Zeile."]
                if order == "mutating-first":
                    calls.reverse()
                shows = ["Schreibe a auf eine Zeile.", "Schreibe b auf eine Zeile.", "Schreibe (zähle b) auf eine Zeile.", "Schreibe b auf eine Zeile."]
                stmts = decl + calls + shows
                if caller == "local":
                    use = "Die Funktion Haupt gibt nichts zurück, macht:\n" + "".join("\t" + x + "\n" for x in stmts) + 'Und kann so benutzt werden:\n\t"haupt"\n\nhaupt.\n'
                else:
                    use = "".join(x + "\n" for x in stmts)
                head = 'Binde "Duden/Ausgabe" ein.\n\n'
                out.append(("effects:%s/%s:%s:%s" % (ro, rw, order, caller), head + ovl + gen_ + use, head + ovl + mono + use))
    return out


def check(res, tier):
    sd = seed()
    rng = Rng(sd)
    broken = leanproj.prove(res, "Props.C15", "Props/C15.lean")
    model = build_model()
    harness = corr.build_harness()
    ddp = pipeline.build()
    quick = tier == "quick"
    # (1) unification: implementation vs model
    reqs = unify_requests(rng, 4000 if quick else 60000)
    a = corr.run_lines(harness, reqs)
    b = corr.run_lines(model, reqs)
    st = Counter()
    bad = 0
    for rq, x, y in zip(reqs, a, b):
        res.evaluations += 1
        st["fits" if " 0:" not in " " + x.split("|")[0] else "refused"] += 1
        res.nontrivial(x.split("|")[0][:40])
        if x != y:
            bad += 1
            if bad <= 3:
                res.violation("unify:" + rq, "UnifyGenericType and its model disagree: implementation %r, model %r" % (x, y),
                              {"request": rq, "implementation": x, "model": y,
                               "theorem": "Props/C15.lean (all theorems are about DDP.Generics.unify)", "kind": "correspondence"}, has_input=True)
    # (2) generic function = specialisation = evaluator
    cfg = pipeline.Config(opt=1)
    n = 150 if quick else 2000
    progs = []
    for i, p in enumerate(random_programs(sd + 977, n)):
        q = gen.genericise(p, Rng(sd + i))
        if q["generic_count"]:
            progs.append((p, q))
    splitp = []
    for i, p in enumerate(random_programs(sd + 1187, n // 2, feats={"structs": True, "funcs": True, "variable": True, "modules": True})):
        p["as_modules"] = True
        q = gen.genericise(p, Rng(sd + 5 * i))
        if q["generic_count"]:
            splitp.append((p, q))
    st2 = Counter()
    for label, pairs in (("generic", progs), ("generic-other-module", splitp)):
        gens = [q for _, q in pairs]
        monos = [p for p, _ in pairs]
        s_ = evalcorr.judge_programs(res, ddp, model, gens, [cfg], label)
        st2.update({label + ":" + k: v for k, v in s_.items()})
        rg = evalcorr.run_programs(ddp, gens, [cfg])
        rm = evalcorr.run_programs(ddp, monos, [cfg])
        reported = 0
        for (p, q), g, m in zip(pairs, rg, rm):
            g, m = g[0], m[0]
            res.evaluations += 1
            if (g.cls, g.exit, g.stdout) != (m.cls, m.exit, m.stdout) and reported < 3:
                reported += 1
                res.violation("%s-vs-specialisation:%s" % (label, evalcorr._fingerprint(q)),
                              "the generic program (%s/%s) and its textual specialisation (%s/%s) behave differently" % (g.cls, g.exit, m.cls, m.exit),
                              {"files": evalcorr.files_of(q), "specialisation": evalcorr.files_of(p), "program": evalcorr.files_of(q).get("main.ddp"),
                               "sexpr": gen.sx_program(q), "config": cfg.name(), "implementation": g.as_dict(), "specialisation_run": m.as_dict()})
    # (3) generic Kombinationen
    jobs = [({"main.ddp": KOMBI + body}, cfg, {}) for _, body, _ in POSITIVE] + [({"main.ddp": KOMBI + body}, cfg, {"compile_only": True}) for _, body in NEGATIVE]
    outs = pipeline.farm(ddp, jobs)
    for (name, body, want), r in zip(POSITIVE, outs):
        res.evaluations += 1
        res.nontrivial("kombi:" + name)
        if r.cls != "ok" or r.stdout != want:
            res.violation("kombi:" + name, "generic Kombination program %s: expected %r, got %s %r" % (name, want, r.cls, r.stdout[-200:]),
                          {"program": KOMBI + body, "expected_stdout": want, "implementation": r.as_dict()})
    for (name, body), r in zip(NEGATIVE, outs[len(POSITIVE):]):
        res.evaluations += 1
        res.nontrivial("kombi-negative:" + name)
        if r.cls != "compile-rejected":
            res.violation("kombi-negative:" + name, "ill-typed use of generics (%s) was not rejected with a diagnostic: %s" % (name, r.cls),
                          {"program": KOMBI + body, "expected": "rejected with a diagnostic", "implementation": r.as_dict()})
    inst = instantiation_matrix(Rng(sd + 77), tier == "quick")
    iouts = pipeline.farm(ddp, [({"main.ddp": src}, c, {}) for _, src, _ in inst for c in (cfg, pipeline.Config(opt=2))])
    for k, (name, src, want) in enumerate(inst):
        for r in iouts[2 * k:2 * k + 2]:
            res.evaluations += 1
            res.nontrivial(name)
            if r.cls != "ok" or r.stdout != want:
                got, exp_ = r.stdout.split("\n"), want.split("\n")
                first = next((i for i, (a, b) in enumerate(zip(got + [""], exp_ + [""])) if a != b), -1)
                res.violation(name, "a generic call does not behave like its specialisation (%s; output line %d is %r, expected %r)" % (
                    r.cls, first, got[first] if 0 <= first < len(got) else None, exp_[first] if 0 <= first < len(exp_) else None),
                    {"program": src, "expected_stdout": want, "implementation": r.as_dict()})
                break
    eff = effect_programs()
    ecfgs = [pipeline.Config(opt=0), pipeline.Config(opt=1), pipeline.Config(opt=2)]
    eouts = pipeline.farm(ddp, [({"main.ddp": src}, c, {}) for _, g, m in eff for src in (g, m) for c in ecfgs])
    for k, (name, g, m) in enumerate(eff):
        rs = eouts[6 * k:6 * k + 6]
        mono_ref = rs[3]        # the hand-specialised program at -O 0
        for c, rg, rm in zip(ecfgs, rs[:3], rs[3:]):
            res.evaluations += 2
            if rm.cls != "ok" or rm.stdout != mono_ref.stdout:
                continue        # the specialisation itself is not stable across levels: C11's business, not judged here
            res.nontrivial(name + ":" + c.name())
            if rg.cls != rm.cls or rg.stdout != rm.stdout:
                res.violation(name + ":" + c.name(), "a generic call does not behave like its textual specialisation at -%s (%s): generic %s %r, specialised %r" % (
                    c.name(), name, rg.cls, rg.stdout[-160:], rm.stdout[-160:]),
                    {"program": g, "specialised_program": m, "config": c.name(), "implementation": rg.as_dict(), "specialised": rm.as_dict()})
                break
    res.extra["effect_programs"] = len(eff)
    mouts = pipeline.farm(ddp, [(files, cfg, {}) for _, files, _ in MODULE_PROGRAMS])
    for (name, files, want), r in zip(MODULE_PROGRAMS, mouts):
        res.evaluations += 1
        res.nontrivial("module:" + name)
        if r.cls != "ok" or r.stdout != want:
            res.violation("module:" + name, "generic function used from another module (%s): expected %r, got %s %r" % (name, want, r.cls, r.stdout[-200:]),
                          {"files": files, "program": files["main.ddp"], "expected_stdout": want, "implementation": r.as_dict()})
    evalcorr.report_broken(res, broken)
    res.extra.update({"unify_requests": len(reqs), "unify_outcomes": dict(st), "generic_programs": len(progs),
                      "generic_two_module_programs": len(splitp), "outcomes_programs": dict(st2),
                      "kombination_programs": [n for n, _, _ in POSITIVE] + [n for n, _ in NEGATIVE]})
    res.rule = ("UnifyGenericType on generated (argument, parameter) sequences incl. conflicting bindings, lists, generic Kombinationen "
                "with type parameters and concrete types in argument position; random programs with functions made generic in a "
                "parameter type (same file / other module) against their textual specialisation and the evaluator; fixed programs for "
                "identity of instantiations and ill-typed bindings; one generic function instantiated with 14 types (primitives, lists, "
                "type definitions of the same base, an alias, Kombinationen) in several orders in one module")
    res.assumptions += ["generic Kombinationen are covered by fixed programs and by the unify correspondence, not by the random generator"]

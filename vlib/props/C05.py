"""C05 — compiled programs release every heap block exactly once.

Theorems: lean/Props/C05.lean about the heap ledger (the contract of ddp_reallocate: exactly-once,
true sizes, nothing foreign).  Ties: (1) the C ledger linked into compiled programs and the Lean
ledger are run on the same traces — the real ones of every program and thousands of mutated,
contract-breaking ones replayed through the C ledger with a scripted allocator; (2) programs: a
control-flow matrix (every loop form x way of leaving x kind of temporary x position), the
aliasing matrix of C08, random programs — each run with the ledger, and under AddressSanitizer
for accesses outside live blocks in runtime and library code."""
import os
import subprocess
from collections import Counter

from .. import ownmodel, leanproj, pipeline, corr, evalcorr, gen
from ..common import Rng, seed, CACHE, VERIF, run
from ..corr import build_model
from . import C01, C08

HEAD = 'Binde "Duden/Ausgabe" ein.\n'

# expressions that leave temporaries of each non-primitive kind
TEMPS = {
    "text": ('(t verkettet mit "xy")', "die Länge von %s"),
    "list": ("(l verkettet mit 4)", "die Länge von %s"),
    "textlist": ('(tl verkettet mit "neu")', "die Länge von %s"),
    "struct": ("(mach_K 1 (t verkettet mit \"s\"))", "fz von %s"),
    "call": ("(baue t)", "die Länge von %s"),
    # a non-primitive part taken out of a temporary: the part and the rest are owned exactly once
    "field-of-literal": ('(ft von (mach_K 1 (t verkettet mit "s")))', "die Länge von %s"),
    "field-of-result": ("(ft von (neues_K t))", "die Länge von %s"),
    "listfield-of-temp": ("(fl von (mach_G l (mach_K 2 t)))", "die Länge von %s"),
    "nested-field-of-temp": ("(ft von (fk von (mach_G l (neues_K t))))", "die Länge von %s"),
    "element-of-temp": ('((tl verkettet mit "neu") an der Stelle 3)', "die Länge von %s"),
    "field-of-element-of-temp": ("(ft von ((eine Liste, die aus (mach_K 1 t), (neues_K t) besteht) an der Stelle 2))", "die Länge von %s"),
    "slice-of-temp": ('((t verkettet mit "wxyz") im Bereich von 2 bis 4)', "die Länge von %s"),
}
DECLS = ('Der Text t ist "ab".\nDie Zahlen Liste l ist eine Liste, die aus 1, 2, 3 besteht.\nDie Text Liste tl ist eine Liste, die aus "a", "b" besteht.\n'
         'Die Variable v ist t verkettet mit "v".\n')
PRELUDE = (HEAD + 'Wir nennen die Kombination aus\n\tder Zahl fz mit Standardwert 0,\n\tdem Text ft mit Standardwert "",\neinen K, und erstellen sie so:\n\t"mach_K <fz> <ft>"\n\n'
           'Wir nennen die Kombination aus\n\tder Zahlen Liste fl mit Standardwert eine leere Zahlen Liste,\n\tdem K fk mit Standardwert der Standardwert von einem K,\neinen G, und erstellen sie so:\n\t"mach_G <fl> <fk>"\n\n'
           'Die Funktion neues_K mit dem Parameter p vom Typ Text, gibt einen K zurück, macht:\n\tGib mach_K 7 (p verkettet mit "neu") zurück.\nUnd kann so benutzt werden:\n\t"neues_K <p>"\n\n'
           'Die Funktion baue mit dem Parameter p vom Typ Text, gibt einen Text zurück, macht:\n\tGib p verkettet mit p zurück.\nUnd kann so benutzt werden:\n\t"baue <p>"\n\n')


def control_flow_programs():
    """yields (label, source): each statement form with temporaries, left in every way"""
    for kind, (tmp, obs) in TEMPS.items():
        n = obs % tmp          # a Zahl computed from a temporary
        exits = {
            "normal": "",
            "break": "\tWenn i gleich 2 ist, Verlasse die Schleife.\n",
            "continue": "\tWenn i gleich 2 ist, Fahre mit der Schleife fort.\n",
            "nested-break": "\tWenn i größer als 0 ist, dann:\n\t\tDer Text innen ist t verkettet mit \"i\".\n\t\tWenn i gleich 2 ist, Verlasse die Schleife.\n",
            "nested-continue": "\tWenn i größer als 0 ist, dann:\n\t\tDer Text innen ist t verkettet mit \"i\".\n\t\tWenn i gleich 2 ist, Fahre mit der Schleife fort.\n",
        }
        for ename, ex in exits.items():
            body = "\tDer Text lokal ist t verkettet mit \"!\".\n" + ex + "\tSchreibe (%s).\n" % n
            yield "for:%s:%s" % (kind, ename), DECLS + "Für jede Zahl i von 1 bis %s, mache:\n%s" % (n, body)
            yield "for-step:%s:%s" % (kind, ename), DECLS + "Für jede Zahl i von (%s) bis 1 mit Schrittgröße (((0 minus (%s)) durch (%s)) als Zahl), mache:\n%s" % (n, n, n, body)
            yield "while:%s:%s" % (kind, ename), DECLS + "Die Zahl i ist 0.\nSolange i kleiner als %s ist, mache:\n\tErhöhe i um 1.\n%s" % (n, body)
            yield "dowhile:%s:%s" % (kind, ename), DECLS + "Die Zahl i ist 0.\nMache:\n\tErhöhe i um 1.\n%sSolange i kleiner als %s ist.\n" % (body, n)
            yield "repeat:%s:%s" % (kind, ename), DECLS + "Die Zahl i ist 0.\nWiederhole:\n\tErhöhe i um 1.\n%s(%s) Mal.\n" % (body, n)
            if kind in ("text", "list", "textlist", "call", "field-of-result", "listfield-of-temp"):
                elt = {"text": "jeden Buchstaben", "list": "jede Zahl", "textlist": "jeden Text", "call": "jeden Buchstaben",
                       "field-of-result": "jeden Buchstaben", "listfield-of-temp": "jede Zahl"}[kind]
                yield "foreach:%s:%s" % (kind, ename), DECLS + "Die Zahl i ist 0.\nFür %s e in %s, mache:\n\tErhöhe i um 1.\n%s" % (elt, tmp, body)
        # returns out of nested scopes of a function, with live locals and temporaries on the way
        for where in ("top", "if", "loop", "loop-in-if", "foreach", "foreach-texts", "foreach-kombis", "foreach-nested"):
            inner = {"top": "\tGib %s zurück.\n" % n,
                     "if": "\tWenn wahr, dann:\n\t\tDer Text b ist p verkettet mit \"b\".\n\t\tGib %s zurück.\n\tGib 0 zurück.\n" % n,
                     "loop": "\tFür jede Zahl i von 1 bis 3, mache:\n\t\tDer Text b ist p verkettet mit \"b\".\n\t\tWenn i gleich 2 ist, Gib %s zurück.\n\tGib 0 zurück.\n" % n,
                     "loop-in-if": "\tWenn wahr, dann:\n\t\tDer Text a ist p verkettet mit \"a\".\n\t\tSolange wahr, mache:\n\t\t\tDer Text b ist a verkettet mit \"b\".\n\t\t\tGib %s zurück.\n\tGib 0 zurück.\n" % n,
                     "foreach": "\tFür jeden Buchstaben c in (p verkettet mit \"xyz\"), mache:\n\t\tDer Text b ist p verkettet mit \"b\".\n\t\tWenn c gleich 'y' ist, Gib %s zurück.\n\tGib 0 zurück.\n" % n,
                     # the loop variable itself owns heap memory when the return leaves the loop
                     "foreach-texts": "\tFür jeden Text w in (eine Liste, die aus p, (p verkettet mit \"lang genug\"), \"drei\" besteht), mache:\n\t\tWenn die Länge von w größer als 3 ist, Gib %s zurück.\n\tGib 0 zurück.\n" % n,
                     "foreach-kombis": "\tFür jeden K k in (eine Liste, die aus (mach_K 1 p), (mach_K 2 (p verkettet mit \"zwei\")) besteht), mache:\n\t\tWenn fz von k gleich 2 ist, Gib %s zurück.\n\tGib 0 zurück.\n" % n,
                     "foreach-nested": "\tFür jeden Text w in (eine Liste, die aus p, \"zweiter\" besteht), mache:\n\t\tFür jeden Text v in (eine Liste, die aus w, (w verkettet mit p) besteht), mache:\n\t\t\tWenn die Länge von v größer als 4 ist, Gib %s zurück.\n\tGib 0 zurück.\n" % n}[where]
            fn = ("Die Funktion frueh mit dem Parameter p vom Typ Text, gibt eine Zahl zurück, macht:\n\tDer Text oben ist p verkettet mit \"o\".\n" + inner +
                  "Und kann so benutzt werden:\n\t\"frueh <p>\"\n\n")
            yield "return:%s:%s" % (kind, where), DECLS + fn + "Schreibe (frueh t).\nSchreibe (frueh (t verkettet mit t)).\n"
        # short-circuited operands, discarded results, unused temporaries, conditional expressions
        yield "shortcircuit:%s" % kind, DECLS + ("Der Wahrheitswert w1 ist wahr, wenn falsch und (%s gleich 1 ist).\nDer Wahrheitswert w2 ist wahr, wenn wahr oder (%s gleich 1 ist).\n"
                                                  "Der Wahrheitswert w3 ist wahr, wenn wahr und (%s größer als 0 ist).\nSchreibe w1.\nSchreibe w2.\nSchreibe w3.\n" % (n, n, n))
        yield "falls:%s" % kind, DECLS + "Die Zahl z ist (%s, falls i_wahr, ansonsten 0).\nSchreibe z.\nDie Zahl y ist (0, falls i_wahr, ansonsten %s).\nSchreibe y.\n".replace("i_wahr", "wahr") % (n, n)
        yield "discarded:%s" % kind, DECLS + "baue t.\nbaue (baue t).\nDie Zahl unbenutzt ist %s.\n" % n
        yield "todo-after:%s" % kind, DECLS + "Die Zahl z ist %s.\nSchreibe z.\n" % n
    yield "falls-nonprimitive", DECLS + ('Der Text a ist (t, falls wahr, ansonsten (t verkettet mit "x")).\nDer Text b ist ((t verkettet mit "y"), falls falsch, ansonsten t).\n'
                                         'Der Text c ist ((t verkettet mit "1"), falls wahr, ansonsten (t verkettet mit "2")).\nSchreibe a.\nSchreibe b.\nSchreibe c.\n'
                                         'Die Zahlen Liste m ist (l, falls falsch, ansonsten (l verkettet mit 9)).\nSchreibe (die Länge von m).\n')
    yield "variable-boxing", DECLS + 'Die Variable a ist t.\nSpeichere l in a.\nSpeichere (a als Zahlen Liste) verkettet mit 1 in a.\nSpeichere 5 in a.\nSpeichere v in a.\nSchreibe (a als Text).\n'
    yield "struct-fields", DECLS + ('Der K k ist mach_K 1 t.\nSpeichere (ft von k) verkettet mit "z" in ft von k.\nDer K k2 ist k.\nSpeichere "anders" in ft von k2.\nSchreibe (ft von k).\nSchreibe (ft von k2).\n'
                                    'Die K Liste kl ist eine Liste, die aus k, k2, (mach_K 3 "drei") besteht.\nSpeichere k in kl an der Stelle 3.\nSchreibe (ft von (kl an der Stelle 3)).\n')
    yield "text-index-assign", DECLS + "Speichere 'ä' in t an der Stelle 1.\nSpeichere 'x' in t an der Stelle 1.\nSpeichere '😀' in t an der Stelle 2.\nSchreibe t.\n"
    yield "laufzeitfehler-midway", DECLS + 'Der Text a ist t verkettet mit "lang".\nSchreibe (l an der Stelle 9).\n'


def judge_heap(res, label, r, model_verdicts, st, src):
    """r ran with the ledger: None or a description of a heap contract violation"""
    if r.cls in ("compile-rejected",):
        st["generator-ill-typed"] += 1
        return None
    if r.cls in ("compile-internal-error", "link-error", "timeout", "signal"):
        return "the program ended as %s: %s" % (r.cls, (r.stderr or r.compile_out)[-200:])
    lines = (r.ledger or "").strip().split("\n")
    vs = [l for l in lines if l.startswith("V ")]
    verdict = vs[-1] if vs else "V missing"
    if verdict.startswith("V error"):
        return "heap contract broken: " + verdict[2:]
    if verdict == "V missing":
        return "no ledger verdict (the program did not exit through exit())"
    live = int(verdict.split()[2])
    if r.cls == "ok" and live != 0:
        return "%d heap block(s) still live at normal exit" % live
    return None


def trace_of(r):
    lines = (r.ledger or "").strip().split("\n")
    vs = [l for l in lines if l.startswith("V ")]
    return [l for l in lines if l and not l.startswith("V")], (vs[-1] if vs else "V missing")


def mutate(rng, trace):
    """a contract-breaking (or not) variant of a recorded trace"""
    t = [l.split() for l in trace]
    if not t:
        return t
    k = rng.below(6)
    i = rng.below(len(t))
    if k == 0:
        del t[i]
    elif k == 1:
        t.insert(i, list(t[i]))
    elif k == 2:
        t[i][1] = str(int(t[i][1]) + 1 + rng.below(3))
    elif k == 3:
        t[i][0] = str(int(t[i][0]) + 16) if t[i][0] != "0" else "4096"
    elif k == 4:
        j = rng.below(len(t))
        t[i], t[j] = t[j], t[i]
    else:
        t[i][3] = t[rng.below(len(t))][3]
    return t


def build_replay():
    out = os.path.join(CACHE, "bin", "ledger_replay")
    src = [os.path.join(VERIF, "rtharness", "ledger.c"), os.path.join(VERIF, "rtharness", "ledger_replay.c")]
    if not os.path.exists(out) or any(os.path.getmtime(out) < os.path.getmtime(s) for s in src):
        p = run(["gcc", "-O1", "-o", out] + src, timeout=120)
        if p.returncode != 0:
            raise RuntimeError("ledger_replay build failed: " + p.stderr)
    return out


def c_ledger_verdict(replay, t, tmpdir, k):
    path = os.path.join(tmpdir, "v%d.txt" % k)
    env = dict(os.environ)
    env["DDP_LEDGER"] = path
    subprocess.run([replay], input=("\n".join(" ".join(x) for x in t) + "\n").encode(), env=env, stdout=subprocess.DEVNULL, stderr=subprocess.DEVNULL, timeout=60)
    try:
        lines = open(path).read().strip().split("\n")
        os.remove(path)
    except OSError:
        return "V missing"
    vs = [l for l in lines if l.startswith("V ")]
    if not vs:
        return "V missing"
    v = vs[-1].split()
    return "ok " + v[2] if v[1] == "ok" else "error %s %s" % (v[2], v[3])


def check(res, tier):
    sd = seed()
    rng = Rng(sd)
    broken = leanproj.prove(res, "Props.C05", "Props/C05.lean")
    model = build_model()
    pipeline.build_ledger()
    replay = build_replay()
    ddp = pipeline.build()
    quick = tier == "quick"
    st = Counter()
    led = [pipeline.Config(opt=1, ledger=True)] if quick else [pipeline.Config(opt=0, ledger=True), pipeline.Config(opt=1, ledger=True), pipeline.Config(opt=2, ledger=True)]
    asan = pipeline.Config(opt=1, asan=True)
    progs = [(lab, {"main.ddp": PRELUDE + src}) for lab, src in control_flow_programs()]
    alias = list(C08.programs())
    if quick:
        alias = alias[sd % 4::4]
    progs += [("alias:" + lab, evalcorr.files_of(p)) for lab, p in alias]
    rnd = C01.random_programs(sd + 5003, 80 if quick else 1500)
    progs += [("random:%d" % i, evalcorr.files_of(p)) for i, p in enumerate(rnd)]
    jobs = []
    for lab, files in progs:
        for cfg in led + [asan]:
            jobs.append((files, cfg, {}))
    outs = pipeline.farm(ddp, jobs)
    k = len(led) + 1
    traces = []
    for pi, (lab, files) in enumerate(progs):
        rs = outs[pi * k:(pi + 1) * k]
        for cfg, r in zip(led, rs[:-1]):
            res.evaluations += 1
            st["ledger:" + r.cls] += 1
            why = judge_heap(res, lab, r, None, st, files)
            if why is None and r.cls in ("ok", "laufzeitfehler"):
                res.nontrivial(lab.split(":")[0] + ":" + ":".join(lab.split(":")[1:3]))
                tr, v = trace_of(r)
                if len(tr) < 20000:
                    traces.append((lab, cfg, tr, v))
            if why and len(res.violations) < 6:
                res.violation("heap:%s:%s" % (lab if not lab.startswith("random") else evalcorr._fingerprint(rnd[int(lab.split(":")[1])]), cfg.name()),
                              "%s (%s): %s" % (lab, cfg.name(), why),
                              {"files": files, "program": files.get("main.ddp"), "config": cfg.name(), "implementation": r.as_dict(),
                               "ledger_tail": (r.ledger or "")[-600:]})
        r = rs[-1]
        res.evaluations += 1
        st["asan:" + r.cls] += 1
        if r.cls == "sanitizer":
            only_leak_after_error = "Laufzeitfehler" in r.stderr and "ERROR: AddressSanitizer" not in r.stderr and "runtime error:" not in r.stderr
            if not only_leak_after_error and len(res.violations) < 8:
                res.violation("asan:%s" % lab, "%s: AddressSanitizer / UBSan / LeakSanitizer report" % lab,
                              {"files": files, "program": files.get("main.ddp"), "config": asan.name(), "implementation": r.as_dict()})
    # who owns an argument and a result is decided differently at -O 2 (parameters judged constant are only borrowed): every row of
    # the aliasing matrix that is about calls and returns runs under the ledger at -O 2 in every tier, unsampled
    if quick:
        o2 = pipeline.Config(opt=2, ledger=True)
        callrows = [("alias:" + lab, evalcorr.files_of(p)) for lab, p in C08.programs()
                    if any(k_ in lab for k_ in ("-arg", "return", "recursive", "silent", "readonly", "part-ref", "forwarded"))]
        for (lab, files), r in zip(callrows, pipeline.farm(ddp, [(f, o2, {}) for _, f in callrows])):
            res.evaluations += 1
            st["ledger-O2:" + r.cls] += 1
            why = judge_heap(res, lab, r, None, st, files)
            if why is None and r.cls in ("ok", "laufzeitfehler"):
                res.nontrivial("O2:" + ":".join(lab.split(":")[1:4]))
            if why and len(res.violations) < 6:
                res.violation("heap:%s:%s" % (lab, o2.name()), "%s (%s): %s" % (lab, o2.name(), why),
                              {"files": files, "program": files.get("main.ddp"), "config": o2.name(), "implementation": r.as_dict(),
                               "ledger_tail": (r.ledger or "")[-600:]})
    # the instrument: C ledger vs Lean ledger, on the recorded traces and on mutated ones
    reqs, want = [], []
    tmpdir = os.path.join(CACHE, "work")
    os.makedirs(tmpdir, exist_ok=True)
    nm = 0
    for lab, cfg, tr, v in traces[:400 if quick else 4000]:
        t = [l.split() for l in tr]
        reqs.append("ledger " + ";".join(",".join(x) for x in t))
        vv = v.split()
        want.append(("real", lab, "ok " + vv[2] if vv[1] == "ok" else "error %s %s" % (vv[2], vv[3]), t))
        for _ in range(2 if quick else 4):
            m = mutate(rng, tr)
            if not m:
                continue
            nm += 1
            reqs.append("ledger " + ";".join(",".join(x) for x in m))
            want.append(("mutated", lab, c_ledger_verdict(replay, m, tmpdir, nm), m))
    answers = corr.run_lines(model, reqs)
    kinds = Counter()
    for (kind, lab, cv, t), mv in zip(want, answers):
        res.evaluations += 1
        kinds[kind + ":" + (cv.split()[0] + (":" + cv.split()[2] if cv.startswith("error") else ""))] += 1
        if cv != mv and len(res.violations) < 10:
            res.violation("ledger-corr:%s:%s" % (kind, hash(str(t)) % 10 ** 8), "the C ledger says %r, the Lean ledger %r on a %s trace of %s" % (cv, mv, kind, lab),
                          {"trace": [" ".join(x) for x in t][:400], "c_ledger": cv, "lean_ledger": mv, "kind": "correspondence",
                           "theorem": "Props/C05.lean (all theorems are about DDP.Ledger.step/run)"})
    # the ownership model of the code generator (DDP.Own): the calls it predicts per function vs the IR of kddp -O 0
    def run_and_judge(src):
        r = pipeline.compile_run(ddp, {"main.ddp": src}, pipeline.Config(opt=0, ledger=True), timeout=5)
        if r.cls == "timeout":
            return None     # the generated loop did not end; no verdict
        return judge_heap(res, "own-model", r, None, Counter(), src)
    own_st = ownmodel.stage(res, ddp, model, sd + 977, 60 if quick else 1200, run_and_judge=run_and_judge)
    res.extra["own_model"] = own_st
    for bk in broken:
        res.violation("obligation:" + bk["name"], "proof obligation no longer checks: %s" % bk["name"],
                      {"theorem": bk["name"], "detail": bk["detail"], "kind": "broken-obligation"}, has_input=False)
    res.extra.update({"programs": len(progs), "control_flow_programs": sum(1 for l, _ in progs if not l.startswith(("alias", "random"))),
                      "configs": [c.name() for c in led + [asan]], "outcomes": dict(st), "traces_rejudged": len(reqs), "trace_kinds": dict(kinds),
                      "longest_trace": max([len(t[2]) for t in traces] + [0])})
    res.rule = ("every loop form x {normal end, Verlasse, Fahre fort, both from a nested block} x temporaries of each non-primitive kind in the "
                "loop header, condition and body; early return from nested scopes (if, loops, for-each) with live locals; short-circuited "
                "operands, conditional expressions, discarded call results, unused temporaries, Variable boxing, Kombination fields, text "
                "character assignment, Laufzeitfehler midway; the aliasing matrix of C08; random programs — each linked with the heap ledger "
                "(contract of ddp_reallocate judged online and re-judged by the Lean model) and run under AddressSanitizer/UBSan/LeakSanitizer")
    res.assumptions += ["memory obtained outside ddp_reallocate (libc buffers) is outside the ledger; blocks live at a Laufzeitfehler exit are not leaks in the sense of the property",
                        "AddressSanitizer's verdict on accesses outside live blocks is trusted"]

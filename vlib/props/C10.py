"""C10 — modules expose exactly their public names and initialise once, in order.

Theorems: lean/Props/C10.lean (model of the initialisation walk of compiler.VisitImportStmt /
ast.IterateModuleImports and of import visibility).  Tie: generated module graphs (ranked DAGs,
imports in random order, `Binde "m" ein` and `Binde a und b aus "m" ein`), every module with a
public and a private global whose initialisers print and depend on the imported modules' globals,
and a top-level statement that must not run; the expected output is computed from the model's
initialisation sequence.  Negative programs: private names, unlisted names, import cycles."""
from collections import Counter

from .. import leanproj, pipeline, corr
from ..common import Rng, seed
from ..corr import build_model

HEAD = 'Binde "Duden/Ausgabe" ein.\n'


DIRS = ["", "pkg", "pkg/ap"]
# file names of the modules 1..5: pairwise different only in trailing characters that also occur in the extension ".ddp",
# sorted like their numbers (a directory walk lists files by name); "pkg/ap/ad.ddp" and "pkg/ap_ad.ddp" (likewise add) are
# different modules whose paths differ only in `/` against `_`; "pkg/ap.ddp" stands next to the directory "pkg/ap"
MODNAMES = {1: "ad", 2: "add", 3: "ap", 4: "ap_ad", 5: "ap_add"}


def mname(k):
    return MODNAMES[k]



def relpath(frm, to, name):
    """the import path of module file `name` in directory `to`, written in a module of directory `frm`"""
    import posixpath
    return posixpath.normpath(posixpath.join(posixpath.relpath(to or ".", frm or "."), name))


def walk(dirs, d, recursive):
    """modules a directory import of d brings in, in the order of filepath.WalkDir: the entries of a directory
    in lexical order, sub-directories (if recursive) entered where they stand"""
    entries = [(mname(k) + ".ddp", k) for k, dk in dirs.items() if dk == d]
    subs = sorted({dk[len(d) + 1:].split("/")[0] for dk in dirs.values() if dk.startswith(d + "/")}) if recursive else []
    entries += [(sname, None) for sname in subs]
    out = []
    for name, k in sorted(entries):
        if k is not None:
            out.append(k)
        else:
            out += walk(dirs, d + "/" + name, True)
    return out


def module_src(k, stmts, listed, graph_vals, dirs=None):
    """source of module k; stmts: its import statements in source order — a module number, or
    ("dir", directory, recursive, modules it brings in); listed[i] = True when only the global of module i is
    imported by name"""
    dirs = dirs or {}
    here = dirs.get(k, "")
    s = HEAD
    terms = [str(k)]
    for st in stmts:
        if isinstance(st, tuple):
            _, d, rec, members = st
            s += 'Binde %salle Module aus "%s" ein.\n' % ("rekursiv " if rec else "", relpath(here, d, ""))
            terms += ["g%d" % i for i in members]
            continue
        i = st
        if listed.get(i):
            s += 'Binde g%d aus "%s" ein.\n' % (i, relpath(here, dirs.get(i, ""), mname(i)))
        else:
            s += 'Binde "%s" ein.\n' % relpath(here, dirs.get(i, ""), mname(i))
        terms.append("g%d" % i)
    s += ("Die öffentliche Funktion melde%d mit dem Parameter n vom Typ Zahl, gibt eine Zahl zurück, macht:\n"
          "\tSchreibe \"init %d \".\n\tSchreibe n auf eine Zeile.\n\tGib n zurück.\nUnd kann so benutzt werden:\n\t\"melde%d <n>\"\n\n" % (k, k, k))
    expr = terms[0]
    for t in terms[1:]:
        expr = "(%s plus %s)" % (expr, t)
    s += "Die öffentliche Zahl g%d ist melde%d %s.\n" % (k, k, expr if len(terms) == 1 else expr)
    s += "Die Zahl privat%d ist melde%d %d.\n" % (k, k, 100 + k)
    s += "Die Zahl gleichnamig ist %d.\n" % (1000 + k)      # the same private name in every module
    s += ("Die öffentliche Funktion lies%d mit dem Parameter n vom Typ Zahl, gibt eine Zahl zurück, macht:\n"
          "\tGib ((privat%d plus g%d) plus gleichnamig) plus n zurück.\nUnd kann so benutzt werden:\n\t\"lies%d <n>\"\n\n" % (k, k, k, k))
    s += 'Schreibe "top %d" auf eine Zeile.\n' % k
    return s


def flat(stmts):
    out = []
    for st in stmts:
        out += list(st[3]) if isinstance(st, tuple) else [st]
    return out


def gen_case(rng, with_dirs=False):
    """(n, graph, listed, vals, main import statements, dirs, import statements per module); graph[k] is the list
    of modules the import statements of k bring in, in order (a directory import stands for its modules)"""
    n = 2 + rng.below(4)
    dirs = {k: (DIRS[rng.below(3)] if with_dirs and rng.below(100) < 60 else "") for k in range(1, n + 1)}
    twins = with_dirs and rng.below(6) == 0
    if twins:       # two modules whose paths differ only in `/` against `_`, both part of the program
        n = max(n, 4)
        dirs.update({k: dirs.get(k, "") for k in range(1, n + 1)})
        dirs[1], dirs[4] = "pkg/ap", "pkg"
    graph, listed, stmts = {}, {}, {}
    for k in range(1, n + 1):
        lower = rng.shuffle(list(range(1, k)))
        st = [i for i in lower if rng.below(100) < 55]
        if with_dirs and rng.below(100) < 50:
            # a directory import, where every module it brings in has a smaller number (and so is not k itself)
            d = DIRS[1 + rng.below(2)]
            rec = rng.below(2) == 1
            members = walk(dirs, d, rec)
            if members and all(i < k for i in members):
                st = [i for i in st if i not in members]       # importing a module twice into one file is an error
                st.insert(rng.below(len(st) + 1), ("dir", d, rec, tuple(members)))
        stmts[k] = st
        graph[k] = flat(st)
        listed[k] = {i: rng.below(100) < 35 for i in st if not isinstance(i, tuple)}
    vals = {}
    for k in range(1, n + 1):
        vals[k] = k + sum(vals[i] for i in graph[k])
    main = [i for i in rng.shuffle(list(range(1, n + 1))) if rng.below(100) < 65] or [n]
    if twins:
        main += [i for i in (1, 4) if i not in main]
    if with_dirs:
        for d in DIRS[1:]:
            rec = rng.below(2) == 1
            members = walk(dirs, d, rec)
            if members and rng.below(100) < 60 and not any(i in flat([x for x in main if isinstance(x, tuple)]) for i in members):
                main = [i for i in main if i not in members]
                main.insert(rng.below(len(main) + 1), ("dir", d, rec, tuple(members)))
    return n, graph, listed, vals, main, dirs, stmts


def build_program(case, order_of):
    """files + expected stdout; order_of(imports_so_far, new_import) gives the newly initialised modules"""
    n, graph, listed, vals, main_imports, dirs, stmts = case
    files = {(dirs[k] + "/" if dirs[k] else "") + mname(k) + ".ddp": module_src(k, stmts[k], listed[k], vals, dirs) for k in range(1, n + 1)}
    main = HEAD + 'Schreibe "main start" auf eine Zeile.\n'
    exp = "main start\n"
    done = []
    for j, st in enumerate(main_imports):
        if isinstance(st, tuple):
            main += 'Binde %salle Module aus "%s" ein.\n' % ("rekursiv " if st[2] else "", st[1])
        else:
            main += 'Binde "%s" ein.\n' % relpath("", dirs[st], mname(st))
        for m in flat([st]):
            for x in order_of(done, m):
                exp += "init %d %d\ninit %d %d\n" % (x, vals[x], x, 100 + x)
                done.append(x)
        main += 'Schreibe "nach %d" auf eine Zeile.\n' % j
        exp += "nach %d\n" % j
    shown = []
    for m in flat(main_imports):
        if m in shown:
            continue
        shown.append(m)
        main += "Schreibe g%d auf eine Zeile.\nSchreibe (lies%d 1) auf eine Zeile.\n" % (m, m)
        exp += "%d\n%d\n" % (vals[m], 100 + m + vals[m] + 1000 + m + 1)
    files["main.ddp"] = main
    return files, exp


KINDS = ["var", "const", "func", "struct", "typealias", "typedef"]


def decl_src(kind, name, public, value):
    o = "öffentliche " if public else ""
    if kind == "var":
        return "Die %sZahl %s ist %d.\n" % (o, name, value)
    if kind == "const":
        return "Die %sKonstante %s ist %d.\n" % (o, name, value)
    if kind == "func":
        return ("Die %sFunktion %s gibt eine Zahl zurück, macht:\n\tGib %d zurück.\nUnd kann so benutzt werden:\n\t\"rufe %s\"\n\n" % (o, name, value, name))
    if kind == "struct":
        return ('Wir nennen die %sKombination aus\n\tder öffentlichen Zahl wert mit Standardwert %d,\neinen %s, und erstellen sie so:\n\t"ein neuer %s"\n\n'
                % (o, value, name, name))
    if kind == "typealias":
        return "Wir nennen eine Zahl %sauch eine %s.\n" % ("öffentlich " if public else "", name)
    return "Wir definieren eine %s %sals eine Zahl.\n" % (name, "öffentlich " if public else "")


def use_src(kind, name, value):
    """(statements using the name, what they print)"""
    if kind in ("var", "const"):
        return "Schreibe %s auf eine Zeile.\n" % name, "%d\n" % value
    if kind == "func":
        return "Schreibe (rufe %s) auf eine Zeile.\n" % name, "%d\n" % value
    if kind == "struct":
        return "Der %s v_%s ist ein neuer %s.\nSchreibe (wert von v_%s) auf eine Zeile.\n" % (name, name, name, name), "%d\n" % value
    if kind == "typealias":
        return "Die %s v_%s ist %d.\nSchreibe v_%s auf eine Zeile.\n" % (name, name, value, name), "%d\n" % value
    return "Die %s v_%s ist %d als %s.\nSchreibe (v_%s als Zahl) auf eine Zeile.\n" % (name, name, value, name, name), "%d\n" % value


def visibility_cases(rng, n):
    """(label, files, model request, used names, {name: (kind, value)})"""
    out = []
    for ci in range(n):
        k = 2 + rng.below(4)
        decls = []
        for j in range(k):
            kind = KINDS[rng.below(len(KINDS))]
            name = ("Ding%d" if kind in ("struct", "typealias", "typedef") else "ding%d") % j
            decls.append((kind, name, rng.below(2) == 1, 10 * (j + 1) + ci % 7))
        m = HEAD + "".join(decl_src(*d) for d in decls)
        # the module uses its own private names itself, through a public function
        m += ("Die öffentliche Funktion innen gibt eine Zahl zurück, macht:\n\tGib %s zurück.\nUnd kann so benutzt werden:\n\t\"was innen ist\"\n\n"
              % " plus ".join(["0"] + [d[1] if d[0] in ("var", "const") else "(rufe %s)" % d[1] for d in decls if d[0] in ("var", "const", "func")]))
        names = [d[1] for d in decls]
        mode = rng.below(4)
        if mode == 0:
            listed = None
        else:
            listed = [x for x in names if rng.below(100) < 50] or [names[0]]
            if mode == 3 and rng.below(2):
                listed.append("gibtsnicht")
        # one used name per program (single cause), or everything the import should give
        pick = rng.below(3)
        if pick == 0:
            used = [names[rng.below(k)]]
        elif pick == 1:
            used = [x for x, d in zip(names, decls) if d[2] and (listed is None or x in listed)]
        else:
            used = []
        main = HEAD + ('Binde "m1" ein.\n' if listed is None else "Binde %s aus \"m1\" ein.\n" % (listed[0] if len(listed) == 1 else ", ".join(listed[:-1]) + " und " + listed[-1]))
        exp = ""
        info = {d[1]: d for d in decls}
        for x in used:
            u, e = use_src(info[x][0], x, info[x][3])
            main += u
            exp += e
        # own declarations under the private names of the module: distinct objects
        own = [d for d in decls if not d[2] and d[1] not in used and d[0] in ("var", "const", "func") and rng.below(2)]
        for kind, name, _, value in own:
            main += decl_src(kind, name, False, value + 500)
            u, e = use_src(kind, name, value + 500)
            main += u
            exp += e
        if listed is None or "innen" in (listed or []):
            main += "Schreibe (was innen ist) auf eine Zeile.\n"
            exp += "%d\n" % sum(d[3] for d in decls if d[0] in ("var", "const", "func"))
        rq = "visible %s %s" % (",".join("%s:%d" % (d[1], d[2]) for d in decls) + ",innen:1", "-" if listed is None else ",".join(listed))
        out.append(("vis:%d" % ci, {"m1.ddp": m, "main.ddp": main}, rq, used, exp, decls, listed))
    return out


NEGATIVE = [
    ("private-global", {"m1.ddp": HEAD + "Die Zahl geheim ist 1.\nDie öffentliche Zahl offen ist 2.\n",
                        "main.ddp": HEAD + 'Binde "m1" ein.\nSchreibe geheim auf eine Zeile.\n'}),
    ("private-function", {"m1.ddp": HEAD + "Die Funktion f mit dem Parameter n vom Typ Zahl, gibt eine Zahl zurück, macht:\n\tGib n zurück.\nUnd kann so benutzt werden:\n\t\"ruf <n>\"\n",
                          "main.ddp": HEAD + 'Binde "m1" ein.\nSchreibe (ruf 1) auf eine Zeile.\n'}),
    ("listed-private-name", {"m1.ddp": HEAD + "Die Zahl geheim ist 1.\nDie öffentliche Zahl offen ist 2.\n",
                             "main.ddp": HEAD + 'Binde geheim aus "m1" ein.\nSchreibe 1 auf eine Zeile.\n'}),
    ("unlisted-public-name", {"m1.ddp": HEAD + "Die öffentliche Zahl offen ist 2.\nDie öffentliche Zahl auch ist 3.\n",
                              "main.ddp": HEAD + 'Binde offen aus "m1" ein.\nSchreibe auch auf eine Zeile.\n'}),
    ("listed-unknown-name", {"m1.ddp": HEAD + "Die öffentliche Zahl offen ist 2.\n",
                             "main.ddp": HEAD + 'Binde nirgends aus "m1" ein.\nSchreibe 1 auf eine Zeile.\n'}),
    ("transitive-not-visible", {"m1.ddp": HEAD + "Die öffentliche Zahl tief ist 2.\n",
                                "m2.ddp": HEAD + 'Binde "m1" ein.\nDie öffentliche Zahl mitte ist tief plus 1.\n',
                                "main.ddp": HEAD + 'Binde "m2" ein.\nSchreibe tief auf eine Zeile.\n'}),
    ("cycle-2", {"m1.ddp": HEAD + 'Binde "m2" ein.\nDie öffentliche Zahl a ist 1.\n', "m2.ddp": HEAD + 'Binde "m1" ein.\nDie öffentliche Zahl b ist 2.\n',
                 "main.ddp": HEAD + 'Binde "m1" ein.\nSchreibe a auf eine Zeile.\n'}),
    ("cycle-self", {"main.ddp": HEAD + 'Binde "main" ein.\nSchreibe 1 auf eine Zeile.\n'}),
    ("cycle-3", {"m1.ddp": HEAD + 'Binde "m2" ein.\nDie öffentliche Zahl a ist 1.\n', "m2.ddp": HEAD + 'Binde "m3" ein.\nDie öffentliche Zahl b ist 2.\n',
                 "m3.ddp": HEAD + 'Binde "m1" ein.\nDie öffentliche Zahl c ist 3.\n', "main.ddp": HEAD + 'Binde "m1" ein.\nSchreibe a auf eine Zeile.\n'}),
    ("dir-missing", {"main.ddp": HEAD + 'Binde alle Module aus "gibtsnicht" ein.\nSchreibe 1 auf eine Zeile.\n'}),
    ("dir-missing-recursive", {"main.ddp": HEAD + 'Binde rekursiv alle Module aus "gibts/nicht" ein.\nSchreibe 1 auf eine Zeile.\n'}),
    ("dir-contains-importer", {"m1.ddp": HEAD + "Die öffentliche Zahl g1 ist 1.\n", "main.ddp": HEAD + 'Binde alle Module aus "." ein.\nSchreibe g1 auf eine Zeile.\n'}),
    ("dir-with-broken-module", {"pkg/m1.ddp": HEAD + "Die öffentliche Zahl g1 ist 1.\n", "pkg/m2.ddp": HEAD + 'Die öffentliche Zahl g2 ist "text".\n',
                                "main.ddp": HEAD + 'Binde alle Module aus "pkg" ein.\nSchreibe g1 auf eine Zeile.\n'}),
    ("dir-nested-not-visible-nonrecursive", {"pkg/tief/m1.ddp": HEAD + "Die öffentliche Zahl g1 ist 1.\n", "pkg/m2.ddp": HEAD + "Die öffentliche Zahl g2 ist 2.\n",
                                             "main.ddp": HEAD + 'Binde alle Module aus "pkg" ein.\nSchreibe g1 auf eine Zeile.\n'}),
    ("dir-cycle", {"pkg/m1.ddp": HEAD + 'Binde alle Module aus "../pkg2" ein.\nDie öffentliche Zahl g1 ist 1.\n',
                   "pkg2/m2.ddp": HEAD + 'Binde alle Module aus "../pkg" ein.\nDie öffentliche Zahl g2 ist 2.\n',
                   "main.ddp": HEAD + 'Binde alle Module aus "pkg" ein.\nSchreibe g1 auf eine Zeile.\n'}),
    ("private-field", {"m1.ddp": HEAD + 'Wir nennen die öffentliche Kombination aus\n\tder Zahl innen mit Standardwert 1,\n\tder öffentlichen Zahl aussen mit Standardwert 2,\n'
                                        'einen Kasten, und erstellen sie so:\n\t"ein_Kasten"\n',
                       "main.ddp": HEAD + 'Binde "m1" ein.\nDer Kasten k ist ein_Kasten.\nSchreibe (innen von k) auf eine Zeile.\n'}),
]
# a by-name import gives names of the named module only: what that module itself imported is not re-exported
for _kind in KINDS:
    _name = "Tief" if _kind in ("struct", "typealias", "typedef") else "tief"
    for _how, _imp in (("whole", 'Binde "m1" ein.\n'), ("by-name", 'Binde %s aus "m1" ein.\n' % _name)):
        NEGATIVE.append(("reexport-by-name:%s:%s" % (_kind, _how),
                         {"m1.ddp": HEAD + decl_src(_kind, _name, True, 5), "m2.ddp": HEAD + _imp + "Die öffentliche Zahl mitte ist 1.\n",
                          "main.ddp": HEAD + ('Binde %s aus "m2" ein.\n' % _name) + use_src(_kind, _name, 5)[0]}))
        NEGATIVE.append(("reexport-by-name-with-own:%s:%s" % (_kind, _how),
                         {"m1.ddp": HEAD + decl_src(_kind, _name, True, 5), "m2.ddp": HEAD + _imp + "Die öffentliche Zahl mitte ist 1.\n",
                          "main.ddp": HEAD + ('Binde mitte und %s aus "m2" ein.\n' % _name) + "Schreibe mitte auf eine Zeile.\n"}))
# directory imports of directories without modules: rejected or accepted, but answered (never a crash of the code generator)
ANSWERED = [
    ("dir-empty", {"leer/.keep": "", "main.ddp": HEAD + 'Binde alle Module aus "leer" ein.\nSchreibe 1 auf eine Zeile.\n'}),
    ("dir-only-other-files", {"daten/a.txt": "a", "daten/b.ddp.bak": "Die Zahl", "main.ddp": HEAD + 'Binde alle Module aus "daten" ein.\nSchreibe 1 auf eine Zeile.\n'}),
    ("dir-nested-only-nonrecursive", {"pkg/tief/m1.ddp": HEAD + "Die öffentliche Zahl g1 ist 1.\n", "main.ddp": HEAD + 'Binde alle Module aus "pkg" ein.\nSchreibe 1 auf eine Zeile.\n'}),
    ("dir-is-a-file", {"ding.ddp": HEAD + "Die öffentliche Zahl g1 ist 1.\n", "main.ddp": HEAD + 'Binde alle Module aus "ding.ddp" ein.\nSchreibe 1 auf eine Zeile.\n'}),
]
POSITIVE = [
    ("public-field", {"m1.ddp": HEAD + 'Wir nennen die öffentliche Kombination aus\n\tder Zahl innen mit Standardwert 1,\n\tder öffentlichen Zahl aussen mit Standardwert 2,\n'
                                       'einen Kasten, und erstellen sie so:\n\t"ein_Kasten"\n',
                      "main.ddp": HEAD + 'Binde "m1" ein.\nDer Kasten k ist ein_Kasten.\nSchreibe (aussen von k) auf eine Zeile.\n'}, "2\n"),
    ("same-names-in-two-modules", {
        "m1.ddp": HEAD + "Die Zahl zaehler ist 10.\nDie Funktion hilf mit dem Parameter n vom Typ Zahl, gibt eine Zahl zurück, macht:\n\tGib n plus zaehler zurück.\nUnd kann so benutzt werden:\n\t\"hilf <n>\"\n"
                         "Die öffentliche Funktion eins mit dem Parameter n vom Typ Zahl, gibt eine Zahl zurück, macht:\n\tErhöhe zaehler um 1.\n\tGib hilf n zurück.\nUnd kann so benutzt werden:\n\t\"eins <n>\"\n",
        "m2.ddp": HEAD + "Die Zahl zaehler ist 20.\nDie Funktion hilf mit dem Parameter n vom Typ Zahl, gibt eine Zahl zurück, macht:\n\tGib n mal zaehler zurück.\nUnd kann so benutzt werden:\n\t\"hilf <n>\"\n"
                         "Die öffentliche Funktion zwei mit dem Parameter n vom Typ Zahl, gibt eine Zahl zurück, macht:\n\tErhöhe zaehler um 1.\n\tGib hilf n zurück.\nUnd kann so benutzt werden:\n\t\"zwei <n>\"\n",
        "main.ddp": HEAD + 'Binde "m1" ein.\nBinde "m2" ein.\nDie Zahl zaehler ist 5.\nSchreibe (eins 1) auf eine Zeile.\nSchreibe (zwei 2) auf eine Zeile.\nSchreibe (eins 1) auf eine Zeile.\nSchreibe zaehler auf eine Zeile.\n'},
     "12\n42\n13\n5\n"),
    ("diamond-once", {
        "m1.ddp": HEAD + "Die öffentliche Zahl basis ist 1.\nDie öffentliche Funktion stoss mit dem Parameter n vom Typ Zahl, gibt eine Zahl zurück, macht:\n\tErhöhe basis um n.\n\tGib basis zurück.\nUnd kann so benutzt werden:\n\t\"stoss <n>\"\n",
        "m2.ddp": HEAD + 'Binde "m1" ein.\nDie öffentliche Zahl lin ist stoss 10.\n',
        "m3.ddp": HEAD + 'Binde "m1" ein.\nDie öffentliche Zahl rec ist stoss 100.\n',
        "main.ddp": HEAD + 'Binde "m2" ein.\nBinde "m3" ein.\nBinde "m1" ein.\nSchreibe lin auf eine Zeile.\nSchreibe rec auf eine Zeile.\nSchreibe basis auf eine Zeile.\n'},
     "11\n111\n111\n"),
]


def check(res, tier):
    sd = seed()
    rng = Rng(sd)
    broken = leanproj.prove(res, "Props.C10", "Props/C10.lean")
    model = build_model()
    ddp = pipeline.build()
    quick = tier == "quick"
    cases = [gen_case(rng) for _ in range(150 if quick else 1000)] + [gen_case(rng, True) for _ in range(100 if quick else 800)]
    # the initialisation sequences from the model, one request per import statement of a main module
    reqs = []
    for n, graph, listed, vals, main_imports, dirs, stmts in cases:
        g = ";".join("%d:%s" % (k, ",".join(map(str, graph[k]))) for k in graph)
        reqs.append("modinit 50 %s %s" % (g, ",".join(map(str, flat(main_imports)))))
    seqs = [[int(x) for x in a.split(",") if x] for a in corr.run_lines(model, reqs)]
    # what a directory import brings in is decided by the model (DDP.Modules.dirImport); the generator's expansion must agree
    dreqs, dwant = [], []
    for n, graph, listed, vals, main_imports, dirs, stmts in cases:
        for st_ in list(main_imports) + [x for v in stmts.values() for x in v]:
            if isinstance(st_, tuple):
                _, d, rec, members = st_
                below = ["%s=%d" % ((dk[len(d) + 1:] + "/" if dk != d else "") + mname(k) + ".ddp", k) for k, dk in sorted(dirs.items()) if dk == d or dk.startswith(d + "/")]
                dreqs.append("dirwalk %d %s" % (1 if rec else 0, ",".join(below) or "-"))
                dwant.append(",".join(str(m) for m in members))
    for rq, want, got in zip(dreqs, dwant, corr.run_lines(model, dreqs)):
        res.evaluations += 1
        if want != got:
            res.violation("dirwalk:" + rq, "the generator's expansion of a directory import (%s) differs from DDP.Modules.dirImport (%s)" % (want, got),
                          {"model_request": rq, "model": got, "generator": want, "kind": "correspondence"}, has_input=False)
    jobs, exps = [], []
    cfgs = [pipeline.Config(opt=1)] if quick else [pipeline.Config(opt=0), pipeline.Config(opt=2), pipeline.Config(opt=1, module_link=False)]
    for case, seq in zip(cases, seqs):
        pos = {m: i for i, m in enumerate(seq)}

        def order_of(done, m, case=case, seq=seq):
            # the modules the model initialises newly at this import: the part of the sequence up to m not yet done
            if m in done:
                return []
            upto = seq.index(m)
            return [x for x in seq[:upto + 1] if x not in done]
        files, exp = build_program(case, order_of)
        for cfg in cfgs:
            jobs.append((files, cfg, {}))
            exps.append((exp, case, cfg, files))
    outs = pipeline.farm(ddp, jobs)
    st = Counter()
    for r, (exp, case, cfg, files) in zip(outs, exps):
        res.evaluations += 1
        st[r.cls] += 1
        res.nontrivial("graph:%d:%s" % (case[0], ",".join(map(str, case[4]))))
        if any(isinstance(x, tuple) for x in case[4]) or any(isinstance(x, tuple) for v in case[6].values() for x in v):
            st["with-directory-import"] += 1
        if r.cls != "ok" or r.stdout != exp:
            res.violation("modules:%s:%s" % (cfg.name(), hash(exp) % 10 ** 8),
                          "initialisation order / visibility differs from the model (%s): %s" % (cfg.name(), r.cls),
                          {"files": files, "program": files["main.ddp"], "expected_stdout": exp, "config": cfg.name(), "implementation": r.as_dict(),
                           "graph": {str(k): v for k, v in case[1].items()}, "main_imports": case[4]})
            if len(res.violations) > 3:
                break
    cfg = pipeline.Config(opt=1)
    neg = pipeline.farm(ddp, [(f, cfg, {"compile_only": True, "timeout": 20}) for _, f in NEGATIVE])
    for (name, files), r in zip(NEGATIVE, neg):
        res.evaluations += 1
        res.nontrivial("negative:" + name)
        if r.cls != "compile-rejected":
            res.violation("negative:" + name, "%s was not rejected with a diagnostic: %s" % (name, r.cls),
                          {"files": files, "program": files["main.ddp"], "expected": "rejected with a diagnostic", "implementation": r.as_dict()})
    # what an import makes visible: every declaration kind, public and private, whole-module and by-name imports
    vis = visibility_cases(rng, 150 if quick else 2500)
    verdicts = corr.run_lines(model, [v[2] for v in vis])
    vouts = pipeline.farm(ddp, [(v[1], cfg, {}) for v in vis])
    for (lab, files, rq, used, exp, decls, listed), verdict, r in zip(vis, verdicts, vouts):
        res.evaluations += 1
        if verdict == "error":
            want_ok = False
        else:
            visible = verdict[len("visible "):].split(",") if len(verdict) > 8 else []
            want_ok = all(u in visible for u in used)
        st["visibility:%s:%s" % ("accept" if want_ok else "reject", r.cls)] += 1
        res.nontrivial("vis:%s:%s:%s" % (sorted(set(d[0] + str(d[2]) for d in decls)), listed is None, want_ok))
        bad = None
        if want_ok and (r.cls != "ok" or r.stdout != exp):
            bad = "an import does not give what the module's public declarations are (expected %r, got %s %r)" % (exp, r.cls, r.stdout[-200:])
        elif not want_ok and r.cls != "compile-rejected":
            bad = "a private or unlisted name of another module is usable, or an impossible by-name import is accepted (%s)" % r.cls
        if bad:
            res.violation("visibility:%s" % (hash(files["main.ddp"] + files["m1.ddp"]) % 10 ** 9), bad,
                          {"files": files, "program": files["main.ddp"], "model_request": rq, "model": verdict, "used_names": used,
                           "expected_stdout": exp if want_ok else None, "implementation": r.as_dict()})
    ans = pipeline.farm(ddp, [(f, cfg, {"timeout": 20}) for _, f in ANSWERED])
    for (name, files), r in zip(ANSWERED, ans):
        res.evaluations += 1
        res.nontrivial("answered:" + name)
        if r.cls not in ("compile-rejected", "ok"):
            res.violation("answered:" + name, "%s is neither compiled nor rejected with a diagnostic: %s" % (name, r.cls),
                          {"files": files, "program": files["main.ddp"], "expected": "an executable or a diagnostic", "implementation": r.as_dict()})
    posr = pipeline.farm(ddp, [(f, cfg, {}) for _, f, _ in POSITIVE])
    for (name, files, want), r in zip(POSITIVE, posr):
        res.evaluations += 1
        res.nontrivial("positive:" + name)
        if r.cls != "ok" or r.stdout != want:
            res.violation("positive:" + name, "%s: expected %r, got %s %r" % (name, want, r.cls, r.stdout[-200:]),
                          {"files": files, "program": files["main.ddp"], "expected_stdout": want, "implementation": r.as_dict()})
    for bk in broken:
        res.violation("obligation:" + bk["name"], "proof obligation no longer checks: %s" % bk["name"],
                      {"theorem": bk["name"], "detail": bk["detail"], "kind": "broken-obligation"}, has_input=False)
    res.extra.update({"module_graphs": len(cases), "configs": [c.name() for c in cfgs], "outcomes": dict(st),
                      "negative_programs": [n for n, _ in NEGATIVE], "answered_programs": [n for n, _ in ANSWERED], "positive_programs": [n for n, _, _ in POSITIVE],
                      "graph_sizes": dict(Counter(c[0] for c in cases))})
    res.rule = ("visibility: modules of 2-5 declarations of every kind (variable, constant, function, Kombination, type alias, type "
                "definition), each public or private, imported whole or by name (also private and unknown names listed), one used name or all "
                "visible names per program, the importer's own declarations under the module's private names: verdict and output against "
                "DDP.Modules.visible; ranked module DAGs of 2..5 modules, imports in random order, whole-module and by-name imports; each module: public global "
                "(initialiser prints and adds the imported modules' globals), private global, same private name in all modules, public "
                "function reading the private ones, a top-level statement; main imports a random subset in random order between prints: "
                "stdout equal to the model's initialisation sequence; fixed negative programs (private / unlisted / unknown / transitive "
                "names, private field, import cycles of length 1, 2, 3, missing / self-containing / cyclic directories, a broken module in a "
                "directory) must be rejected with a diagnostic; directories without modules must be answered (compiled or rejected, no crash); "
                "half of the graphs place modules in pkg/ and pkg/tief/ and use (recursive) directory imports, whose modules arrive in "
                "filepath.WalkDir order")
    res.assumptions += ["a directory import stands for the modules DDP.Modules.dirImport lists (entries in lexical order, sub-directories in place: the contract of filepath.WalkDir)",
                        "the model walks a DAG without in-progress marks; import cycles are outside it and must be rejected by the front end (checked)"]

"""C03 — the front end is total: no input crashes or hangs it.

Theorems: lean/Props/C03.lean (scanner returns and is linear; unifier and initialisation walk are
bounded) — the parser proper has no Lean model.  Tie / search: every input is parsed in a
sacrificial harness process (panics answered, fatal errors and hangs detected, culprit re-run alone
with time and memory limits): all token strings up to a length over an alphabet of lexical-class
representatives, token- and byte-level mutants of generated programs and Duden sources (incl.
invalid UTF-8), deep nestings, import arrangements (missing files, directories, cycles, self-import,
broken imported modules)."""
from collections import Counter

from .. import leanproj, pipeline, corr, malformed, probe, evalcorr
from ..common import Rng, seed
from .C01 import random_programs

_ALIAS_FN = ('Die Funktion foo gibt nichts zurück, macht:\n\tDie Zahl z ist 1.\nUnd kann so benutzt werden:\n\t"foo"\n')
_PUNKT = 'Wir nennen die Kombination aus\n\tder Zahl x mit Standardwert 0,\neinen Punkt, und erstellen sie so:\n\t"ein Punkt"\n\n'
KNOWN_SEEDS = [
    ("alias-declaration-for-a-kombination", _PUNKT + 'Der Alias "mach Punkt" steht für die Funktion Punkt.\n'),
    ("operator-overload-of-wrong-arity-then-used", 'Die Funktion f mit dem Parameter z vom Typ Text, gibt eine Zahl zurück, macht:\n\tGib 1 zurück.\nUnd überlädt den "plus" Operator.\n\nDie Zahl a ist "x" plus "y".\n'),
    ("operator-overload-of-wrong-arity-unary-used-binary", 'Die Funktion f mit den Parametern y und z vom Typ Text und Text, gibt eine Zahl zurück, macht:\n\tGib 1 zurück.\nUnd überlädt den "Betrag" Operator.\n\nDie Zahl a ist der Betrag von "x".\n'),
    ("operator-overload-of-wrong-arity-cast", _PUNKT + 'Die Funktion f gibt eine Zahl zurück, macht:\n\tGib 1 zurück.\nUnd überlädt den "als" Operator.\n\nDer Punkt p ist ein Punkt.\nDie Zahl a ist p als Zahl.\n'),
    ("generic-function-instantiating-itself-with-a-bigger-type", 'Die generische Funktion f mit dem Parameter a vom Typ T, gibt nichts zurück, macht:\n\tDie T Liste l ist eine leere T Liste.\n\tf l.\nUnd kann so benutzt werden:\n\t"f <a>"\n\nf 1.\n'),
    ("generic-function-instantiating-itself-inside-an-argument", 'Die Funktion Doppelt mit dem Parameter n vom Typ Zahl, gibt eine Zahl zurück, macht:\n\tGib n mal 2 zurück.\nUnd kann so benutzt werden:\n\t"das Doppelte von <n>"\n\n'
     'Die generische Funktion Tiefe mit dem Parameter a vom Typ T, gibt eine Zahl zurück, macht:\n\tDie T Liste l ist eine leere T Liste.\n\tGib das Doppelte von (die Tiefe von l) zurück.\nUnd kann so benutzt werden:\n\t"die Tiefe von <a>"\n\nDie Zahl z ist die Tiefe von 1.\n'),
    ("generic-function-instantiating-itself-inside-an-operand", 'Die generische Funktion Tiefe mit dem Parameter a vom Typ T, gibt eine Zahl zurück, macht:\n\tDie T Liste l ist eine leere T Liste.\n\tGib (die Tiefe von l) plus 1 zurück.\nUnd kann so benutzt werden:\n\t"die Tiefe von <a>"\n\nDie Zahl z ist die Tiefe von 1.\n'),
    ("generic-function-instantiating-itself-inside-its-own-argument", 'Die generische Funktion Tiefe mit dem Parameter a vom Typ T, gibt eine Zahl zurück, macht:\n\tDie T Liste l ist eine leere T Liste.\n\tGib die Tiefe von (die Tiefe von l) zurück.\nUnd kann so benutzt werden:\n\t"die Tiefe von <a>"\n\nDie Zahl z ist die Tiefe von 1.\n'),
    ("generic-function-instantiating-itself-inside-a-condition", 'Die generische Funktion Tiefe mit dem Parameter a vom Typ T, gibt eine Zahl zurück, macht:\n\tDie T Liste l ist eine leere T Liste.\n\tWenn (die Tiefe von l) gleich 0 ist, gib 1 zurück.\n\tGib 0 zurück.\nUnd kann so benutzt werden:\n\t"die Tiefe von <a>"\n\nDie Zahl z ist die Tiefe von 1.\n'),
    ("two-generic-functions-instantiating-each-other-with-bigger-types", 'Die generische Funktion Ping mit dem Parameter a vom Typ T, gibt eine Zahl zurück, wird später definiert\nund kann so benutzt werden:\n\t"ping <a>"\n\n'
     'Die generische Funktion Pong mit dem Parameter a vom Typ T, gibt eine Zahl zurück, macht:\n\tDie T Liste l ist eine leere T Liste.\n\tGib ping l zurück.\nUnd kann so benutzt werden:\n\t"pong <a>"\n\n'
     'Die generische Funktion Ping macht:\n\tDie T Liste l ist eine leere T Liste.\n\tGib (pong l) plus 1 zurück.\n\nDie Zahl z ist ping 1.\n'),
    ("variable-named-like-a-kombination-then-field-access", _PUNKT + 'Der Punkt p ist ein Punkt.\nWenn wahr, dann:\n\tDie Zahl Punkt ist 1.\n\tDie Zahl y ist x von p.\n'),
    ("kombination-with-a-field-of-unknown-type-sharing-its-alias-with-a-kombination", 'Wir nennen die Kombination aus\n\tder Zahl y mit Standardwert 0,\neinen Korb, und erstellen sie so:\n\t"ein Ding mit <y>"\n\nWir nennen die Kombination aus\n\tdem Gibtsnicht x mit Standardwert 0,\neinen Kasten, und erstellen sie so:\n\t"ein Ding mit <x>"\n'),
    ("kombination-with-a-field-of-unknown-type-sharing-its-alias-with-a-function", 'Die Funktion foo mit dem Parameter z vom Typ Zahl, gibt nichts zurück, macht:\n\tDie Zahl q ist 1.\nUnd kann so benutzt werden:\n\t"ein Ding mit <z>"\n\nWir nennen die Kombination aus\n\tdem Gibtsnicht x mit Standardwert 0,\n\tder Zahl y mit Standardwert 0,\neinen Kasten, und erstellen sie so:\n\t"ein Ding mit <x>" oder\n\t"ein Ding mit <y>"\n'),
    ("import-statement-in-a-generic-function-body", 'Die generische Funktion f mit dem Parameter a vom Typ T, gibt nichts zurück, macht:\n\tBinde "Duden/Ausgabe" ein.\nUnd kann so benutzt werden:\n\t"f <a>"\n\nf 1.\n'),
    ("import-statement-in-a-generic-function-body-after-code", 'Die generische Funktion f mit dem Parameter a vom Typ T, gibt ein T zurück, macht:\n\tDas T b ist a.\n\tBinde "Duden/Zahlen" ein.\n\tGib b zurück.\nUnd kann so benutzt werden:\n\t"f <a>"\n\nDie Zahl z ist f 1.\nDer Text t ist f "x".\n'),
    ("list-alias-initialised-by-repetition", 'Wir nennen eine Zahlen Liste auch eine Reihung.\nDie Reihung r ist 2 Mal 1.\n'),
    ("alias-declaration-as-if-body", _ALIAS_FN + 'Wenn wahr, Der Alias "bar" steht für die Funktion foo.\n'),
    ("alias-declaration-as-else-body", _ALIAS_FN + 'Wenn falsch, foo.\nSonst Der Alias "bar" steht für die Funktion foo.\n'),
    ("alias-declaration-as-while-body", _ALIAS_FN + 'Solange falsch, Der Alias "bar" steht für die Funktion foo.\n'),
    ("alias-declaration-as-for-body", _ALIAS_FN + 'Für jede Zahl i von 1 bis 2, Der Alias "bar" steht für die Funktion foo.\n'),
    ("alias-declaration-as-foreach-body", _ALIAS_FN + 'Für jede Zahl i in (eine Liste, die aus 1, 2 besteht), Der Alias "bar" steht für die Funktion foo.\n'),
    ("alias-declaration-of-unknown-function-as-if-body", 'Wenn wahr, Der Alias "bar" steht für die Funktion gibtsnicht.\n'),
    ("directory-import-missing", 'Binde alle Module aus "gibtsnicht" ein.\n'),
    ("directory-import-recursive-missing", 'Binde rekursiv alle Module aus "gibts/nicht" ein.\n'),
    ("single-parameter-alias", 'Die Funktion f mit dem Parameter text vom Typ Text, gibt einen Text zurück, macht:\n\tGib text zurück.\n'
                               'Und kann so benutzt werden:\n\t"<text>"\nDer Text t ist "a".\n'),
    ("untyped-argument-for-generic-parameter", 'Binde "Duden/HashTabelle" ein.\nDie öffentliche Befehlszeile HauptBefehlszeile ist eine leere Befehlszeile.\n'
                                               'Gib wahr, wenn HauptBefehlszeile lang enthält, zurück.\n'),
    ("one-type-parameter-two-instantiations", 'Wir nennen die generische Kombination aus\n\tdem T a,\n\tdem R b,\neinen Paar, und erstellen sie so:\n\t"Paar(<a>, <b>)"\n\n'
                                              'Wir nennen die generische Kombination aus\n\tdem T x,\neinen Solo, und erstellen sie so:\n\t"Solo(<x>)"\n\n'
                                              'Die generische Funktion zwei mit den Parametern p und q vom Typ T und T, gibt eine Zahl zurück, macht:\n\tGib 1 zurück.\n'
                                              'Und kann so benutzt werden:\n\t"zwei <p> <q>"\n\nDer Zahl-Text-Paar pa ist Paar(1, "a").\nDer Zahl-Solo so ist Solo(1).\nDie Zahl z ist zwei pa so.\n'),
]


def check(res, tier):
    sd = seed()
    rng = Rng(sd)
    broken = leanproj.prove(res, "Props.C03", "Props/C03.lean")
    harness = corr.build_harness()
    ddp = pipeline.build()
    quick = tier == "quick"
    base = random_programs(sd + 3001, 20 if quick else 120)
    reqs = [("corpus:" + n, {"files": {"main.ddp": s}, "main": "main.ddp"}) for n, s in KNOWN_SEEDS]
    reqs += malformed.requests(rng, ddp, base, quick)
    answers = probe.probe(harness, [r for _, r in reqs], ddp)
    st = Counter()
    for (label, rq), a in zip(reqs, answers):
        res.evaluations += 1
        kind = label.split(":")[0]
        st["%s:%s" % (kind, a["result"])] += 1
        if a["result"] == "not-run":
            continue
        if a["result"] in ("ok", "error"):
            res.nontrivial("%s:%d:%s" % (kind, len(a.get("diags", [])), a.get("faulty")))
            continue
        if len(res.violations) < 5:
            what = {"panic": "panicked", "crash": "died (fatal error)", "timeout": "did not return in time"}.get(a["result"], a["result"])
            res.violation("frontend:%s:%s" % (a["result"], hash(str(rq)) % 10 ** 8), "the front end %s on a %s input" % (what, kind),
                          {"request": rq, "program": (rq.get("files") or {}).get("main.ddp"), "answer": {k: (v[:3000] if isinstance(v, str) else v) for k, v in a.items() if k != "diags"}})
    evalcorr.report_broken(res, broken)
    res.extra.update({"inputs": len(reqs), "outcomes": dict(sorted(st.items())), "alphabet": malformed.ALPHABET,
                      "short_string_length": 2 if quick else 3})
    res.level = "proof"
    res.rule = ("all strings of up to %d tokens over a 25-symbol alphabet of lexical classes; per generated program token mutants (delete, "
                "duplicate, swap, splice, replace, truncate) and byte mutants (random bytes, truncated multi-byte sequences, NUL, 0xFF); "
                "token mutants of Duden sources; deep nestings (parentheses, unary chains, blocks, list types, operator chains); import "
                "arrangements (missing file, directory imports of missing / empty / nested / self-containing directories, cycles 1-4, "
                "self-import, broken module, odd paths, empty modules); every statement and declaration start, and each of its prefixes, in "
                "every position where a single statement is expected (bodies of Wenn / Sonst / Wenn aber / Solange / Für / blocks / functions): the front end "
                "must answer (module or error value), never panic, die or hang") % (2 if quick else 3)
    res.assumptions += ["for the parser, resolver and type checker this is a search over inputs, not a proof (no Lean model of the recursive descent); "
                        "the proved parts are the scanner, the unifier and the import walk"]

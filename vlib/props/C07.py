"""C07 — failure is reported faithfully: flag, exit status and source ranges.

Theorems: lean/Props/C07.lean (faulty iff an error-level diagnostic was delivered; exit status and
artefact follow; a range inside the text is always renderable by the model of MakeAdvancedHandler).
Tie: on generated programs, their ill-formed variants (C04) and malformed inputs (C03) the real
front end is monitored: Faulty == (some delivered diagnostic has level error); every delivered range
names a file of the request and lies inside its text with start <= end (the Lean `inText`, evaluated by
the model driver for every diagnostic); the real renderer runs on every diagnostic without panic; kddp's exit
status and produced object agree with the flag."""
import json
import os
from collections import Counter

from .. import leanproj, pipeline, corr, malformed, probe, evalcorr, mutate, gen
from ..common import Rng, seed
from .C01 import random_programs

LEVEL_ERROR = None


def error_level():
    """numeric value of ddperror.LEVEL_ERROR (regenerated from the source on every run)"""
    path = os.path.join(pipeline.REPO, "src", "ddperror", "error.go")
    txt = open(path, encoding="utf-8").read()
    # const ( LEVEL_INVALID Level = iota; LEVEL_WARN; LEVEL_ERROR )
    import re
    m = re.search(r"const \(([^)]*LEVEL_ERROR[^)]*)\)", txt, re.S)
    names = [l.split()[0] for l in m.group(1).split("\n") if l.strip() and not l.strip().startswith("//")]
    return names.index("LEVEL_ERROR"), names.index("LEVEL_WARN")


def in_text(text_lines, rng4):
    sl, sc, el, ec = rng4
    if not (1 <= sl <= el <= len(text_lines)):
        return False
    if not (1 <= sc <= len(text_lines[sl - 1]) + 1 and 1 <= ec <= len(text_lines[el - 1]) + 1):
        return False
    return not (sl == el and sc > ec)


def check(res, tier):
    sd = seed()
    rng = Rng(sd)
    broken = leanproj.prove(res, "Props.C07", "Props/C07.lean")
    harness = corr.build_harness()
    ddp = pipeline.build()
    quick = tier == "quick"
    lv_error, lv_warn = error_level()
    base = random_programs(sd + 7001, 25 if quick else 200)
    reqs = []
    for p in base:
        src = gen.pp_program(p)
        reqs.append(("well-formed", {"files": {"main.ddp": src}, "main": "main.ddp"}))
        reqs.append(("warning-only", {"files": {"main.ddp": src + "...\n"}, "main": "main.ddp"}))
        for kind, m in mutate.ast_mutants(p, rng, 4 if quick else 8):
            try:
                reqs.append(("mutant", {"files": {"main.ddp": gen.pp_program(m)}, "main": "main.ddp"}))
            except (ValueError, KeyError, TypeError):
                pass
        for kind, msrc in mutate.text_mutants(src, rng)[:3]:
            reqs.append(("text-mutant", {"files": {"main.ddp": msrc}, "main": "main.ddp"}))
        # an error in an imported module, reported while compiling the importer
        reqs.append(("error-in-import", {"files": {"lib.ddp": src.replace(" ist ", " ist ist ", 1), "main.ddp": 'Binde "Duden/Ausgabe" ein.\nBinde "lib" ein.\nSchreibe 1.\n'}, "main": "main.ddp"}))
    reqs += [(l, r) for l, r in malformed.requests(rng, ddp, base[:10], quick) if l != "short" or rng.below(4) == 0]
    for _, r in reqs:
        r["render"] = True
    answers = probe.probe(harness, [r for _, r in reqs], ddp)
    st = Counter()
    ndiags = 0
    range_reqs, range_want = [], []
    for (label, rq), a in zip(reqs, answers):
        res.evaluations += 1
        if a["result"] != "ok":
            st[label + ":" + a["result"]] += 1
            continue        # crashes are C03's; a Parse error value (e.g. unreadable file) delivers no module
        diags = a.get("diags", [])
        has_error = any(d["level"] == lv_error for d in diags)
        st["%s:%s" % (label, "faulty" if a["faulty"] else "clean")] += 1
        res.nontrivial("%s:%d:%s" % (label, min(len(diags), 9), a["faulty"]))
        problems = []
        if bool(a["faulty"]) != has_error:
            problems.append("Faulty is %s but %s error-level diagnostic was delivered" % (a["faulty"], "an" if has_error else "no"))
        texts = {}
        for name, t in (rq.get("files") or {}).items():
            texts[name] = t.split("\n")
        for name, hx in (rq.get("hexfiles") or {}).items():
            texts[name] = bytes.fromhex(hx).decode("utf-8", "replace").split("\n")
        for d in diags:
            ndiags += 1
            f = d["file"]
            if f not in texts:
                # diagnostics inside Duden modules name files of the install tree
                cand = os.path.join(ddp, f) if not os.path.isabs(f) else f
                alt = [os.path.join(ddp, "Duden", os.path.basename(f)), cand]
                lines = None
                for c in alt:
                    if os.path.exists(c):
                        lines = open(c, encoding="utf-8", errors="replace").read().split("\n")
                        break
                if lines is None:
                    problems.append("diagnostic names the file %r which is not part of the compilation" % f)
                    continue
                texts[f] = lines
            if "hexfiles" in rq and f in rq["hexfiles"]:
                continue        # columns in texts that are not UTF-8 have no code-point meaning
            range_reqs.append("rangecheck %d %d %d %d %s" % (tuple(d["range"]) + (",".join(str(len(l)) for l in texts[f][:max(d["range"][0], d["range"][2]) + 1]) or "-",)))
            range_want.append(in_text(texts[f], d["range"]))
            if not in_text(texts[f], d["range"]):
                problems.append("range %s of a diagnostic (code %d) does not lie inside %s (or starts after its end)" % (d["range"], d["code"], f))
        if (a.get("extra") or {}).get("render-panic"):
            problems.append("the source-excerpt renderer panicked: " + "; ".join(a["extra"]["render-panic"][:2])[:300])
        for pr in problems[:2]:
            if len(res.violations) < 6:
                res.violation("faithful:%s:%s" % (label, hash(pr + str(rq)[:200]) % 10 ** 8), pr,
                              {"request": rq, "program": (rq.get("files") or {}).get("main.ddp"), "diagnostics": diags[:12], "faulty": a["faulty"]})
    # the Python monitor and the Lean predicate agree on every range, and the renderer model gets through every range inside its text
    model = corr.build_model()
    for rq_, want, ans in zip(range_reqs, range_want, corr.run_lines(model, range_reqs)):
        res.evaluations += 1
        if ans != "intext=%d render=%s" % (1 if want else 0, "some" if want else ans.split("render=")[-1]):
            if len(res.violations) < 6:
                res.violation("rangemodel:" + rq_, "the range monitor and the Lean model disagree on %s: monitor %s, model %s" % (rq_, want, ans),
                              {"request": rq_, "model": ans, "monitor_in_text": want, "kind": "correspondence",
                               "theorem": "Props/C07.lean render_total / DDP.Diag.inText"}, has_input=False)
    # kddp: exit status and artefact
    cfg = pipeline.Config(opt=1)
    sub = [(l, r) for (l, r), a in zip(reqs, answers) if a["result"] == "ok" and l in ("well-formed", "warning-only", "mutant", "text-mutant", "error-in-import")]
    sub = sub[:120 if quick else 1200]
    faulty_of = {id(r): a["faulty"] for (l, r), a in zip(reqs, answers)}
    for label, rq in sub:
        r = pipeline.compile_run(ddp, rq["files"], cfg, compile_only=True)
        res.evaluations += 1
        failed = r.stage == "compile"
        st["kddp:%s:%s" % (label, "failed" if failed else "ok")] += 1
        if failed != bool(faulty_of[id(rq)]) and len(res.violations) < 8:
            res.violation("exit:%s:%s" % (label, hash(str(rq)) % 10 ** 8),
                          "kddp %s although the module is %s" % ("failed" if failed else "exited 0 and produced an object", "faulty" if faulty_of[id(rq)] else "not faulty"),
                          {"request": rq, "program": rq["files"].get("main.ddp"), "implementation": r.as_dict()})
    evalcorr.report_broken(res, broken)
    res.extra.update({"inputs": len(reqs), "diagnostics_checked": ndiags, "outcomes": dict(sorted(st.items())), "level_error": lv_error, "level_warn": lv_warn})
    res.rule = ("well-formed programs, the same with a `...` statement (warning only), AST and text mutants, an error inside an imported "
                "module, malformed inputs: Faulty == exists error-level diagnostic; every range inside the text of the file it names, "
                "start <= end; the real MakeAdvancedHandler renders every diagnostic without panic; kddp's exit status and object file "
                "agree with the flag")
    res.assumptions += ["columns are judged in code points; files that are not valid UTF-8 are excluded from the column check"]

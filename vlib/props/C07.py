"""C07 — failure is reported faithfully: flag, exit status and source ranges.

Theorems: lean/Props/C07.lean (faulty iff an error-level diagnostic was delivered; exit status and
artefact follow; a range inside the text is always renderable by the model of MakeAdvancedHandler).
Tie: on generated programs, their ill-formed variants (C04) and malformed inputs (C03) the real
front end is monitored: Faulty == (some delivered diagnostic has level error); every delivered range
names a file of the request and lies inside its text with start <= end (the Lean `inText`, evaluated by
the model driver for every diagnostic); the real renderer runs on every diagnostic without panic; kddp's exit
status and produced object agree with the flag."""
import json
import os
from collections import Counter

from .. import leanproj, pipeline, corr, malformed, probe, evalcorr, mutate, gen
from ..common import Rng, seed
from .C01 import random_programs

LEVEL_ERROR = None


def error_level():
    """numeric value of ddperror.LEVEL_ERROR (regenerated from the source on every run)"""
    path = os.path.join(pipeline.REPO, "src", "ddperror", "error.go")
    txt = open(path, encoding="utf-8").read()
    # const ( LEVEL_INVALID Level = iota; LEVEL_WARN; LEVEL_ERROR )
    import re
    m = re.search(r"const \(([^)]*LEVEL_ERROR[^)]*)\)", txt, re.S)
    names = [l.split()[0] for l in m.group(1).split("\n") if l.strip() and not l.strip().startswith("//")]
    return names.index("LEVEL_ERROR"), names.index("LEVEL_WARN")


def in_text(text_lines, rng4):
    sl, sc, el, ec = rng4
    if not (1 <= sl <= el <= len(text_lines)):
        return False
    if not (1 <= sc <= len(text_lines[sl - 1]) + 1 and 1 <= ec <= len(text_lines[el - 1]) + 1):
        return False
    return not (sl == el and sc > ec)


def illtyped_contexts(quick):
    """every expression form (each operator x operand types, the forms with a spelling of their own) as initialiser of a
    variable of a type it cannot have: a type error whose range is that of the expression"""
    from .. import opmatrix
    H = 'Binde "Duden/Ausgabe" ein.\n'
    stmts = []
    for label, ts, build, rt in opmatrix.cells():
        if label.startswith("init:"):
            continue
        ops = [opmatrix.lit(t, opmatrix.pool(t)[1 % len(opmatrix.pool(t))]) for t in ts]
        for minimal in (False, True):
            try:
                e = gen.pp_expr(build(ops), minimal)
            except (ValueError, KeyError, TypeError):
                continue
            stmts.append(("Die Zahl" if rt == "T" else "Der Text", e))
    extra = ["die 2. Wurzel von 16", "die 3. Wurzel von (2 plus 6)", "die (1 plus 1). Wurzel von 16,0", "der Logarithmus von 8 zur Basis 2",
             "der Betrag von (0 minus 3)", "die Länge von \"abc\"", "die Größe von 1", "der Standardwert von einer Zahl",
             "eine leere Zahlen Liste", "eine Liste, die aus 1, 2 besteht", "3 Mal 7", "1 als Kommazahl", "wahr, wenn 1 gleich 1 ist",
             "(1, falls wahr, ansonsten 2)", "1 hoch 2", "(1 durch 2)", "nicht wahr", "entweder wahr, oder falsch", "-(-3)",
             "1 um 2 Bit nach Links verschoben", "logisch nicht 1", "1 logisch und 3", "1 kontra 3", "1 logisch oder 3"]
    for e in extra:
        stmts.append(("Der Text", e))
    out = []
    per = 40
    step = 3 if quick else 1
    stmts = stmts[::step] + [("Der Text", e) for e in extra]
    for i in range(0, len(stmts), per):
        src = H + "".join("%s falsch_%d ist %s.\n" % (a, i + j, e) for j, (a, e) in enumerate(stmts[i:i + per]))
        out.append(("illtyped-context:%d" % (i // per), {"main.ddp": src}))
    return out


def import_clashes():
    """two modules export the same thing; the importer of both gets a diagnostic that has to point into the importer
    (the modules are longer than the importer, so a range taken from the wrong file falls outside)"""
    H = 'Binde "Duden/Ausgabe" ein.\n'
    PAD = "[ Polster ]\n" * 9
    kinds = {
        "variable": "Die öffentliche Zahl gleich ist %d.\n",
        "constant": "Die öffentliche Konstante GLEICH ist %d.\n",
        "function-name": 'Die öffentliche Funktion gleich gibt eine Zahl zurück, macht:\n\tGib %d zurück.\nUnd kann so benutzt werden:\n\t"alias nummer %d"\n',
        "function-alias": 'Die öffentliche Funktion fn%d gibt eine Zahl zurück, macht:\n\tGib %d zurück.\nUnd kann so benutzt werden:\n\t"der gleiche alias"\n',
        "kombination-name": 'Wir nennen die öffentliche Kombination aus\n\tder öffentlichen Zahl w mit Standardwert %d,\neinen Gleich, und erstellen sie so:\n\t"ein Gleich nummer %d"\n',
        "kombination-alias": 'Wir nennen die öffentliche Kombination aus\n\tder öffentlichen Zahl w mit Standardwert %d,\neinen Kombi%d, und erstellen sie so:\n\t"die gleiche Kombination"\n',
        "type-alias": "Wir nennen eine Zahl öffentlich auch eine Gleich.\n[ %d ]\n",
        "type-definition": "Wir definieren eine Gleich öffentlich als eine Zahl.\n[ %d ]\n",
        "operator-overload": 'Die öffentliche Funktion laenge%d mit dem Parameter z vom Typ Zahl, gibt eine Zahl zurück, macht:\n\tGib z plus %d zurück.\nUnd überlädt den "Länge" Operator.\n',
        "cast-overload": 'Die öffentliche Funktion als_text%d mit dem Parameter z vom Typ Wahrheitswert, gibt einen Text zurück, macht:\n\tGib "%d" zurück.\nUnd überlädt den "als" Operator.\n',
    }
    out = []
    for kname, tmpl in kinds.items():
        def fill(i):
            return tmpl % tuple([i] * tmpl.count("%d"))
        out.append(("import-clash:%s" % kname, {"m1.ddp": H + fill(1), "m2.ddp": H + PAD + fill(2), "main.ddp": H + 'Binde "m1" ein.\nBinde "m2" ein.\n'}))
        out.append(("import-clash-by-name:%s" % kname, {"m1.ddp": H + fill(1), "m2.ddp": H + PAD + fill(2),
                                                          "main.ddp": H + 'Binde "m2" ein.\nBinde "m1" ein.\nSchreibe 1.\n'}))
        # the second declaration is the importer's own, after the import
        out.append(("import-then-own:%s" % kname, {"m2.ddp": H + PAD + fill(2), "main.ddp": H + 'Binde "m2" ein.\n' + fill(1).replace("öffentliche ", "").replace("öffentlich ", "")}))
        # diamond: the clash arrives through two import paths
        out.append(("import-diamond:%s" % kname, {"m1.ddp": H + fill(1), "m2.ddp": H + PAD + 'Binde "m1" ein.\n' , "m3.ddp": H + PAD + PAD + 'Binde "m1" ein.\n' + fill(3),
                                                   "main.ddp": H + 'Binde "m2" ein.\nBinde "m3" ein.\nBinde "m1" ein.\n'}))
    return out


def check(res, tier):
    sd = seed()
    rng = Rng(sd)
    broken = leanproj.prove(res, "Props.C07", "Props/C07.lean")
    harness = corr.build_harness()
    ddp = pipeline.build()
    quick = tier == "quick"
    lv_error, lv_warn = error_level()
    base = random_programs(sd + 7001, 25 if quick else 200)
    reqs = []
    for p in base:
        src = gen.pp_program(p)
        reqs.append(("well-formed", {"files": {"main.ddp": src}, "main": "main.ddp"}))
        reqs.append(("warning-only", {"files": {"main.ddp": src + "...\n"}, "main": "main.ddp"}))
        for kind, m in mutate.ast_mutants(p, rng, 4 if quick else 8):
            try:
                reqs.append(("mutant", {"files": {"main.ddp": gen.pp_program(m)}, "main": "main.ddp"}))
            except (ValueError, KeyError, TypeError):
                pass
        for kind, msrc in mutate.text_mutants(src, rng)[:3]:
            reqs.append(("text-mutant", {"files": {"main.ddp": msrc}, "main": "main.ddp"}))
        # an error in an imported module, reported while compiling the importer
        reqs.append(("error-in-import", {"files": {"lib.ddp": src.replace(" ist ", " ist ist ", 1), "main.ddp": 'Binde "Duden/Ausgabe" ein.\nBinde "lib" ein.\nSchreibe 1.\n'}, "main": "main.ddp"}))
    # single-cause programs for diagnostics that are delivered late or from unusual places
    H = 'Binde "Duden/Ausgabe" ein.\n'
    FWD = 'Die Funktion nachher mit dem Parameter a vom Typ Zahl, gibt eine Zahl zurück,\nwird später definiert\nund kann so benutzt werden:\n\t"nachher <a>"\n\n'
    GEN = ('Die generische Funktion gen mit dem Parameter a vom Typ T, gibt ein T zurück, macht:\n%s\tGib a zurück.\nUnd kann so benutzt werden:\n\t"gen <a>"\n\n')
    corpus = [
        ("alias-only-a-parameter:function", {"main.ddp": H + 'Die Funktion nur mit dem Parameter x vom Typ Zahl, gibt eine Zahl zurück, macht:\n\tGib x zurück.\nUnd kann so benutzt werden:\n\t"<x>"\n\nSchreibe 8 auf eine Zeile.\n'}),
        ("alias-only-a-parameter:function-second-alias", {"main.ddp": H + 'Die Funktion nur mit dem Parameter x vom Typ Zahl, gibt eine Zahl zurück, macht:\n\tGib x zurück.\nUnd kann so benutzt werden:\n\t"nur <x>" oder\n\t"<x>"\n\nSchreibe (nur 8) auf eine Zeile.\n'}),
        ("alias-only-a-parameter:kombination", {"main.ddp": H + 'Wir nennen die Kombination aus\n\tder Zahl wert mit Standardwert 0,\neinen Halter, und erstellen sie so:\n\t"<wert>"\n\nSchreibe 8 auf eine Zeile.\n'}),
        ("alias-wrong-parameter-count", {"main.ddp": H + 'Die Funktion nur mit dem Parameter x vom Typ Zahl, gibt eine Zahl zurück, macht:\n\tGib x zurück.\nUnd kann so benutzt werden:\n\t"nur <x> <y>"\n\nSchreibe 8 auf eine Zeile.\n'}),
        ("alias-empty", {"main.ddp": H + 'Die Funktion nur mit dem Parameter x vom Typ Zahl, gibt eine Zahl zurück, macht:\n\tGib x zurück.\nUnd kann so benutzt werden:\n\t""\n\nSchreibe 8 auf eine Zeile.\n'}),
        ("forward-declaration-never-defined", {"main.ddp": H + FWD + 'Schreibe "x" auf eine Zeile.\n'}),
        ("forward-declaration-never-defined-but-called", {"main.ddp": H + FWD + 'Schreibe (nachher 1) auf eine Zeile.\n'}),
        ("forward-declaration-defined", {"main.ddp": H + FWD + 'Schreibe (nachher 1) auf eine Zeile.\n\nDie Funktion nachher macht:\n\tGib a plus 1 zurück.\n'}),
        ("forward-declaration-defined-twice", {"main.ddp": H + FWD + 'Die Funktion nachher macht:\n\tGib a plus 1 zurück.\n\nDie Funktion nachher macht:\n\tGib a plus 2 zurück.\n'}),
        ("definition-without-declaration", {"main.ddp": H + 'Die Funktion nie_deklariert macht:\n\tGib 1 zurück.\n'}),
        ("forward-declaration-in-import-never-defined", {"lib.ddp": H + FWD.replace("Die Funktion", "Die öffentliche Funktion"), "main.ddp": H + 'Binde "lib" ein.\nSchreibe 1.\n'}),
        ("warning-in-generic-body", {"main.ddp": H + GEN % "\t...\n" + 'Schreibe "vor" auf eine Zeile.\n'}),
        ("warning-in-generic-body-instantiated", {"main.ddp": H + GEN % "" + 'Die generische Funktion todo_gen mit dem Parameter a vom Typ T, gibt ein T zurück, macht:\n\t...\nUnd kann so benutzt werden:\n\t"todo_gen <a>"\n\nSchreibe (gen 1) auf eine Zeile.\nWenn falsch, dann:\n\tSchreibe (todo_gen 1) auf eine Zeile.\n'}),
        ("error-in-generic-body-instantiated", {"main.ddp": H + GEN % "\tDie Zahl kaputt ist \"text\".\n" + 'Schreibe (gen 1) auf eine Zeile.\n'}),
        ("error-in-generic-body-not-instantiated", {"main.ddp": H + GEN % "\tDie Zahl kaputt ist \"text\".\n" + 'Schreibe 1 auf eine Zeile.\n'}),
        ("generic-overload-tried-and-discarded-in-import", {
            "gen.ddp": H + 'Die öffentliche generische Funktion zeig mit dem Parameter a vom Typ T Liste, gibt nichts zurück, macht:\n\tSchreibe (die Länge von a) auf eine Zeile.\nUnd kann so benutzt werden:\n\t"zeig <a>"\n\n'
                           'Die öffentliche Funktion zeig_zahl mit dem Parameter a vom Typ Zahl, gibt nichts zurück, macht:\n\tSchreibe a auf eine Zeile.\nUnd kann so benutzt werden:\n\t"zeig <a>"\n',
            "main.ddp": H + 'Binde "gen" ein.\nzeig 5.\nzeig (eine Liste, die aus 1, 2 besteht).\n'}),
        ("generic-candidate-fails-after-reference-candidate", {"main.ddp": H + 'Die generische Funktion Doppel mit dem Parameter a vom Typ T, gibt ein T zurück, macht:\n\tGib a verkettet mit 1 zurück.\n'
                                                                              'Und kann so benutzt werden:\n\t"<a> verdoppelt bitte"\n\nDie Funktion DoppelRef mit dem Parameter x vom Typ Zahlen Referenz, gibt eine Zahl zurück, macht:\n'
                                                                              '\tGib x mal 2 zurück.\nUnd kann so benutzt werden:\n\t"<x> verdoppelt"\n\nDie Zahl z ist 5 verdoppelt bitte.\nSchreibe z auf eine Zeile.\n'}),
        ("imported-generic-candidate-tried-and-discarded", {
            "gen.ddp": 'Die öffentliche generische Funktion DoppeltRef mit dem Parameter a vom Typ T Referenz, gibt ein T zurück, macht:\n\tGib a verkettet mit "x" zurück.\nUnd kann so benutzt werden:\n\t"<a> doppelt"\n\n'
                       'Die öffentliche generische Funktion DoppeltVal mit dem Parameter a vom Typ T, gibt ein T zurück, macht:\n\tGib a plus a zurück.\nUnd kann so benutzt werden:\n\t"<a> doppelt"\n',
            "main.ddp": H + 'Binde "gen" ein.\n\nDie Zahl z ist 4.\nSchreibe (z doppelt) auf eine Zeile.\n'}),
        ("local-generic-candidate-tried-and-discarded", {
            "main.ddp": H + 'Die generische Funktion DoppeltRef mit dem Parameter a vom Typ T Referenz, gibt ein T zurück, macht:\n\tGib a verkettet mit "x" zurück.\nUnd kann so benutzt werden:\n\t"<a> doppelt"\n\n'
                            'Die generische Funktion DoppeltVal mit dem Parameter a vom Typ T, gibt ein T zurück, macht:\n\tGib a plus a zurück.\nUnd kann so benutzt werden:\n\t"<a> doppelt"\n\n'
                            'Die Zahl z ist 4.\nSchreibe (z doppelt) auf eine Zeile.\n'}),
        ("unused-import-of-broken-module", {"kaputt.ddp": "Die Zahl ist ist.\n", "main.ddp": H + 'Binde "kaputt" ein.\nSchreibe 1.\n'}),
        ("alias-clash", {"main.ddp": H + 'Die Funktion a1 gibt eine Zahl zurück, macht:\n\tGib 1 zurück.\nUnd kann so benutzt werden:\n\t"gleicher alias"\n\nDie Funktion a2 gibt eine Zahl zurück, macht:\n\tGib 2 zurück.\nUnd kann so benutzt werden:\n\t"gleicher alias"\n'}),
        ("operator-overload-bad-arity", {"main.ddp": H + 'Die Funktion op1 mit dem Parameter a vom Typ Text, gibt einen Text zurück, macht:\n\tGib a zurück.\nUnd überlädt den "plus" Operator.\n'}),
        ("error-at-last-token", {"main.ddp": H + "Die Zahl z ist"}),
        # diagnostics whose range touches the end of the file, with and without a final line break, LF and CRLF
        ("eof:missing-value-then-newline", {"main.ddp": H + "Die Zahl z ist\n"}),
        ("eof:missing-dot-then-newline", {"main.ddp": H + "Die Zahl z ist 1.\nSchreibe z\n"}),
        ("eof:missing-dot-no-newline", {"main.ddp": H + "Die Zahl z ist 1.\nSchreibe z"}),
        ("eof:missing-dot-two-newlines", {"main.ddp": H + "Die Zahl z ist 1.\nSchreibe z\n\n"}),
        ("eof:type-error-and-missing-dot", {"main.ddp": H + 'Die Zahl z ist "a".\nSchreibe z\n'}),
        ("eof:open-text-then-newline", {"main.ddp": H + 'Schreibe "offen\n'}),
        ("eof:open-text-no-newline", {"main.ddp": H + 'Schreibe "offen'}),
        ("eof:backslash-at-end", {"main.ddp": H + 'Schreibe "ab\\'}),
        ("eof:open-char", {"main.ddp": H + "Der Buchstabe b ist 'x\n"}),
        ("eol:backslash-at-end-of-line-in-text", {"main.ddp": H + 'Schreibe "ab\\\nc".\n'}),
        ("eol:backslash-at-end-of-line-in-char", {"main.ddp": H + "Der Buchstabe b ist '\\\n'.\n"}),
        ("eol:backslash-at-end-of-last-line", {"main.ddp": H + 'Schreibe "ab\\\n'}),
        ("eol:backslash-before-crlf", {"main.ddp": H + 'Schreibe "ab\\\r\nc".\n'}),
        ("eof:open-comment-then-newline", {"main.ddp": H + "Die Zahl z ist 1.\n[ offen\n"}),
        ("eof:open-block", {"main.ddp": H + "Wenn wahr, dann:\n"}),
        ("eof:open-function", {"main.ddp": H + "Die Funktion f gibt nichts zurück, macht:\n\tSchreibe 1.\n"}),
        ("eof:crlf", {"main.ddp": (H + 'Die Zahl z ist "a".\nSchreibe z\n').replace("\n", "\r\n")}),
        ("eof:empty-file-with-newline", {"main.ddp": "\n"}),
        ("eof:only-open-paren", {"main.ddp": H + "Die Zahl z ist (\n"}),
        ("alias-text:open-parameter", {"main.ddp": H + 'Die Funktion f mit dem Parameter a vom Typ Zahl, gibt nichts zurück, macht:\n\tSchreibe a.\nUnd kann so benutzt werden:\n\t"foo <a"\n'}),
        ("alias-text:unknown-parameter", {"main.ddp": H + 'Die Funktion f mit dem Parameter a vom Typ Zahl, gibt nichts zurück, macht:\n\tSchreibe a.\nUnd kann so benutzt werden:\n\t"foo <b>"\n'}),
        ("alias-text:bad-escape", {"main.ddp": H + 'Die Funktion f mit dem Parameter a vom Typ Zahl, gibt nichts zurück, macht:\n\tSchreibe a.\nUnd kann so benutzt werden:\n\t"foo \\q <a>"\n'}),
        ("alias-text:empty", {"main.ddp": H + 'Die Funktion f mit dem Parameter a vom Typ Zahl, gibt nichts zurück, macht:\n\tSchreibe a.\nUnd kann so benutzt werden:\n\t""\n'}),
        ("error-at-first-token", {"main.ddp": ". Die Zahl z ist 1.\n"}),
        ("error-inside-alias-string", {"main.ddp": H + 'Die Funktion a3 mit dem Parameter p vom Typ Zahl, gibt eine Zahl zurück, macht:\n\tGib p zurück.\nUnd kann so benutzt werden:\n\t"nimm <q> statt p"\n'}),
    ]
    # an error behind text whose letters take more than one byte, on the same line and close to its end: positions count
    # code points, whatever stands before them (comment, text literal, character literal, identifier), on the line or on the lines before
    WIDE = "ääööüüßß€€€😀😀"
    for wl, before in (("comment", "[ %s ] " % WIDE), ("comment-two-lines", "[ erste Zeile\n%s ] " % WIDE), ("comment-wide-first-line", "[ %s\nzweite ] " % WIDE),
                       ("text-literal", 'Der Text t%d ist "%s". ' % (1, WIDE)), ("char-literals", "Der Buchstabe b1 ist 'ä'. Der Buchstabe b2 ist '😀'. "),
                       ("identifier", "Die Zahl grüße_ößü ist 1. ")):
        for el, err in (("unknown-name", "Die Zahl z ist q."), ("missing-dot", "Die Zahl z ist 1"), ("type-error", 'Die Zahl z ist "x".')):
            corpus.append(("wide-before-error:%s:%s" % (wl, el), {"main.ddp": H + before + err + "\n"}))
    # two errors in one statement: the first one is reported (and makes the parser suppress what follows), the second one leaves a
    # stand-in in the tree — at top level and inside blocks, where the statement is looked at again together with its block
    firsts = {"article-w": ("Die Wahrheitswert b ist wahr, wenn %s.", True), "article-z": ("Das Zahl z ist %s.", False)}
    seconds = {"gleich": "2 gleich ist", "ungleich": "1 ungleich", "groesser": "2 größer als ist", "plus": "1 plus", "minus": "1 minus", "mal": "2 mal",
               "durch": "2 durch", "und": "wahr und", "oder": "wahr oder", "shift": "8 um 2 Bit nach", "hoch": "2 hoch", "klammer": "(1 plus )"}
    wraps = {"top": "%s\n", "wenn": "Wenn wahr, dann:\n\t%s\n", "solange": "Solange falsch, mache:\n\t%s\n",
             "funktion": 'Die Funktion f gibt nichts zurück, macht:\n\t%s\nUnd kann so benutzt werden:\n\t"mach f"\n',
             "wenn-in-solange": "Solange falsch, mache:\n\tWenn wahr, dann:\n\t\t%s\n"}
    for fl, (ftmpl, _) in firsts.items():
        for sl, sec in seconds.items():
            for wl, w in wraps.items():
                corpus.append(("second-error-in-statement:%s:%s:%s" % (fl, sl, wl), {"main.ddp": H + w % (ftmpl % sec)}))
    # errors inside the body of a generic function come out when it is instantiated, wrapped in the diagnostic of the call: at the
    # last token of the body (the saved tokens end there), in the middle, in the first statement
    GEN = 'Die generische Funktion Zeige mit dem Parameter a vom Typ T, gibt %s zurück, macht:\n%sUnd kann so benutzt werden:\n\t"Zeige <a>"\n\n%s\n'
    for gl, ret, body, use in (("missing-final-dot", "nichts", '\tSchreibe den Text "hi" auf eine Zeile\n', "Zeige 1."),
                               ("missing-zurueck", "ein T", "\tGib a\n", "Die Zahl z ist Zeige 1."),
                               ("unfinished-expression", "ein T", "\tGib a plus\n", "Die Zahl z ist Zeige 1."),
                               ("open-paren", "ein T", "\tGib (a\n", "Die Zahl z ist Zeige 1."),
                               ("error-in-the-middle", "nichts", '\tSchreibe den Text "a" auf eine Zeile.\n\tSchreibe den Text auf eine Zeile.\n\tSchreibe den Text "c" auf eine Zeile.\n', "Zeige 1."),
                               ("unknown-name", "ein T", "\tGib unbekannt zurück.\n", "Die Zahl z ist Zeige 1."),
                               ("type-error-for-one-type", "ein T", "\tGib a plus 1 zurück.\n", 'Der Text z ist Zeige "t".')):
        corpus.append(("generic-body-error:" + gl, {"main.ddp": H + GEN % (ret, body, use)}))
    corpus += illtyped_contexts(quick) + import_clashes()
    for name, files in corpus:
        reqs.append(("corpus:" + name, {"files": files, "main": "main.ddp"}))
    reqs += [(l, r) for l, r in malformed.requests(rng, ddp, base[:10], quick) if l != "short" or rng.below(4) == 0]
    for _, r in reqs:
        r["render"] = True
        r["dump"] = ["ranges"]
    answers = probe.probe(harness, [r for _, r in reqs], ddp)
    st = Counter()
    ndiags = 0
    nranges = 0
    range_reqs, range_want = [], []
    for (label, rq), a in zip(reqs, answers):
        res.evaluations += 1
        if a["result"] != "ok":
            st[label + ":" + a["result"]] += 1
            continue        # crashes are C03's; a Parse error value (e.g. unreadable file) delivers no module
        diags = a.get("diags", [])
        has_error = any(d["level"] == lv_error for d in diags)
        st["%s:%s" % (label, "faulty" if a["faulty"] else "clean")] += 1
        res.nontrivial("%s:%d:%s" % (label, min(len(diags), 9), a["faulty"]))
        problems = []
        for d in diags:
            if d["level"] not in (lv_error, lv_warn):
                problems.append("a diagnostic was delivered that is neither a warning nor an error (level %s, code %s: %r): it is shown like an "
                                "error but does not make the compilation fail" % (d["level"], d.get("code"), d.get("msg", "")[:80]))
        if bool(a["faulty"]) != has_error:
            problems.append("Faulty is %s but %s error-level diagnostic was delivered" % (a["faulty"], "an" if has_error else "no"))
        texts = {}
        for name, t in (rq.get("files") or {}).items():
            texts[name] = t.split("\n")
        for name, hx in (rq.get("hexfiles") or {}).items():
            texts[name] = bytes.fromhex(hx).decode("utf-8", "replace").split("\n")
        # the diagnostics a delivered one carries inside (the errors of a failed generic instantiation) are printed with it:
        # they name a file and a range like any other
        for d in diags + list(a.get("wrapped") or []):
            ndiags += 1
            f = d["file"]
            if f not in texts:
                # diagnostics inside Duden modules name files of the install tree
                cand = os.path.join(ddp, f) if not os.path.isabs(f) else f
                alt = [os.path.join(ddp, "Duden", os.path.basename(f)), cand]
                lines = None
                for c in alt:
                    if os.path.exists(c):
                        lines = open(c, encoding="utf-8", errors="replace").read().split("\n")
                        break
                if lines is None:
                    problems.append("diagnostic names the file %r which is not part of the compilation" % f)
                    continue
                texts[f] = lines
            if "hexfiles" in rq and f in rq["hexfiles"]:
                continue        # columns in texts that are not UTF-8 have no code-point meaning
            range_reqs.append("rangecheck %d %d %d %d %s" % (tuple(d["range"]) + (",".join(str(len(l)) for l in texts[f][:max(d["range"][0], d["range"][2]) + 1]) or "-",)))
            range_want.append(in_text(texts[f], d["range"]))
            if not in_text(texts[f], d["range"]):
                problems.append("range %s of a diagnostic (code %d) does not lie inside %s (or starts after its end)" % (d["range"], d["code"], f))
        # the ranges stored in the syntax tree (what later diagnostics will point at): every composite expression has a
        # range of its own, start <= end, and it covers the ranges of its operands
        def parse_rg(t):
            x, y = t.split("-")
            return tuple(int(v) for v in x.split(":")) + tuple(int(v) for v in y.split(":"))
        for ln in ((a.get("extra") or {}).get("ranges") or []):
            toks = ln.split(" ")
            # kind may contain spaces (operator names): the ranges are the trailing tokens of the form a:b-c:d
            k = len(toks)
            while k > 0 and toks[k - 1].count(":") == 2 and "-" in toks[k - 1] and toks[k - 1].replace(":", "").replace("-", "").isdigit():
                k -= 1
            kind, rgs = " ".join(toks[:k]), [parse_rg(t) for t in toks[k:]]
            if not rgs:
                continue
            nranges += 1
            own, kids = rgs[0], rgs[1:]
            bad = None
            if own[0] < 1 or own[1] < 1 or (own[0], own[1]) > (own[2], own[3]):
                bad = "the %s expression has the range %s (no position, or its start lies behind its end)" % (kind, own)
            elif not a["faulty"]:      # after a syntax error the tree contains stand-ins positioned where parsing resumed
                for kr in kids:
                    if kr == (0, 0, 0, 0):
                        bad = "an operand of the %s expression at %s has no range (0:0-0:0)" % (kind, own)
                    elif (kr[0], kr[1]) > (kr[2], kr[3]) or (kr[0], kr[1]) < (own[0], own[1]) or (kr[2], kr[3]) > (own[2], own[3]):
                        if not kind.startswith("call:") and not kind.startswith("binary:logarithmus"):
                            bad = "the range %s of the %s expression does not cover its operand at %s" % (own, kind, kr)
                    if bad:
                        break
            if bad:
                problems.append(bad)
                break
        if (a.get("extra") or {}).get("render-panic"):
            problems.append("the source-excerpt renderer panicked: " + "; ".join(a["extra"]["render-panic"][:2])[:300])
        for pr in problems[:2]:
            if len(res.violations) < 6:
                res.violation("faithful:%s:%s" % (label, hash(pr + str(rq)[:200]) % 10 ** 8), pr,
                              {"request": rq, "program": (rq.get("files") or {}).get("main.ddp"), "diagnostics": diags[:12], "faulty": a["faulty"]})
    # the Python monitor and the Lean predicate agree on every range, and the renderer model gets through every range inside its text
    model = corr.build_model()
    for rq_, want, ans in zip(range_reqs, range_want, corr.run_lines(model, range_reqs)):
        res.evaluations += 1
        if ans != "intext=%d render=%s" % (1 if want else 0, "some" if want else ans.split("render=")[-1]):
            if len(res.violations) < 6:
                res.violation("rangemodel:" + rq_, "the range monitor and the Lean model disagree on %s: monitor %s, model %s" % (rq_, want, ans),
                              {"request": rq_, "model": ans, "monitor_in_text": want, "kind": "correspondence",
                               "theorem": "Props/C07.lean render_total / DDP.Diag.inText"}, has_input=False)
    # kddp: exit status and artefact
    cfg = pipeline.Config(opt=1)
    sub = [(l, r) for (l, r), a in zip(reqs, answers) if a["result"] == "ok" and (l in ("well-formed", "warning-only", "mutant", "text-mutant", "error-in-import") or l.startswith("corpus:"))]
    sub = [x for x in sub if x[0].startswith("corpus:")] + [x for x in sub if not x[0].startswith("corpus:")][:120 if quick else 1200]
    faulty_of = {id(r): a["faulty"] for (l, r), a in zip(reqs, answers)}
    for label, rq in sub:
        r = pipeline.compile_run(ddp, rq["files"], cfg, compile_only=True)
        res.evaluations += 1
        failed = r.stage == "compile"
        st["kddp:%s:%s" % (label, "failed" if failed else "ok")] += 1
        if failed != bool(faulty_of[id(rq)]) and len(res.violations) < 8:
            res.violation("exit:%s:%s" % (label, hash(str(rq)) % 10 ** 8),
                          "kddp %s although the module is %s" % ("failed" if failed else "exited 0 and produced an object", "faulty" if faulty_of[id(rq)] else "not faulty"),
                          {"request": rq, "program": rq["files"].get("main.ddp"), "implementation": r.as_dict()})
    evalcorr.report_broken(res, broken)
    res.extra.update({"inputs": len(reqs), "diagnostics_checked": ndiags, "expression_ranges_checked": nranges, "outcomes": dict(sorted(st.items())), "level_error": lv_error, "level_warn": lv_warn})
    res.rule = ("well-formed programs, the same with a `...` statement (warning only), AST and text mutants, an error inside an imported "
                "module, malformed inputs: Faulty == exists error-level diagnostic; every range inside the text of the file it names, "
                "start <= end; every composite expression of the syntax tree has a range that starts before it ends and covers its operands; "
                "the real MakeAdvancedHandler renders every diagnostic without panic; kddp's exit status and object file "
                "agree with the flag")
    res.assumptions += ["columns are judged in code points; files that are not valid UTF-8 are excluded from the column check"]

"""C08 — values are copied; only Referenz parameters alias.

Theorems: lean/Props/C08.lean (store: a write through one holder never changes another location;
declarations, value parameters and for-each variables get fresh locations; a Referenz parameter is
bound to the caller's own location and path).  Tie: a systematic matrix holder-type x copy
operation x mutation, plus random programs, compiled and compared with the evaluator."""
from collections import Counter

from .. import leanproj, pipeline, evalcorr, gen
from ..common import Rng, seed
from ..corr import build_model, build_harness
from .. import constcorr
from .C01 import random_programs

K = ("S", "Kombi")
STRUCTS = [("Kombi", [("fz", "Z", ("int", 1)), ("ft", "T", ("text", [0x61])), ("fl", ("L", "Z"), ("list", "Z", [("int", 1), ("int", 2)]))])]


def txt(s):
    return ("text", [ord(c) for c in s])


# holder types: (type, value 1, value 2, mutations(target expr) -> [stmt])
def holders():
    def whole(v2):
        return lambda tg, ty: [_assign(tg, v2, ty)]
    out = []
    out.append(("T", txt("abc"), txt("xyz😀"), [
        ("whole", lambda tg: [("assign", tg, txt("neu"))]),
        ("char", lambda tg: [("assign", ("bin", "index", tg, ("int", 2)), ("char", 0x20AC))]),
        ("append", lambda tg: [("assign", tg, ("bin", "concat", tg, txt("!")))]),
    ]))
    out.append((("L", "Z"), ("list", "Z", [("int", 1), ("int", 2), ("int", 3)]), ("list", "Z", [("int", 7)]), [
        ("whole", lambda tg: [("assign", tg, ("list", "Z", [("int", 9), ("int", 9)]))]),
        ("element", lambda tg: [("assign", ("bin", "index", tg, ("int", 2)), ("int", 42))]),
        ("append", lambda tg: [("assign", tg, ("bin", "concat", tg, ("int", 5)))]),
    ]))
    out.append((("L", "T"), ("list", "T", [txt("a"), txt("bc")]), ("list", "T", [txt("q")]), [
        ("whole", lambda tg: [("assign", tg, ("list", "T", [txt("neu")]))]),
        ("element", lambda tg: [("assign", ("bin", "index", tg, ("int", 1)), txt("ersetzt"))]),
    ]))
    out.append((K, ("struct", "Kombi", [("fz", ("int", 5)), ("ft", txt("t")), ("fl", ("list", "Z", [("int", 4), ("int", 5)]))]),
                ("struct", "Kombi", [("fz", ("int", 0)), ("ft", txt("")), ("fl", ("list", "Z", []))]), [
        ("whole", lambda tg: [("assign", tg, ("struct", "Kombi", [("fz", ("int", 77)), ("ft", txt("n")), ("fl", ("list", "Z", [("int", 7)]))]))]),
        ("field", lambda tg: [("assign", ("field", "fz", tg), ("int", 99))]),
        ("field-text", lambda tg: [("assign", ("field", "ft", tg), txt("geändert"))]),
        ("field-list-element", lambda tg: [("assign", ("bin", "index", ("field", "fl", tg), ("int", 1)), ("int", 1000))]),
        ("compound", lambda tg: [("compound", "plus", ("field", "fz", tg), ("int", 10))]),
    ]))
    # primitive holders: a Referenz to a Zahl / Kommazahl / Buchstabe aliases the caller's variable just as well (the same
    # variable twice, a global the callee also names)
    out.append(("Z", ("int", 5), ("int", 9), [
        ("whole", lambda tg: [("assign", tg, ("int", 42))]),
        ("compound", lambda tg: [("compound", "plus", tg, ("int", 10))]),
    ]))
    out.append(("K", ("float", gen.bits_of_float(1.5)), ("float", gen.bits_of_float(2.25)), [
        ("whole", lambda tg: [("assign", tg, ("float", gen.bits_of_float(8.5)))]),
    ]))
    out.append(("C", ("char", 0x61), ("char", 0x20AC), [
        ("whole", lambda tg: [("assign", tg, ("char", 0x7A))]),
    ]))
    out.append(("V", ("cast", txt("var"), "V"), ("cast", ("int", 3), "V"), [
        ("whole", lambda tg: [("assign", tg, txt("anders"))]),
        ("whole-int", lambda tg: [("assign", tg, ("int", 12))]),
    ]))
    return out


def programs():
    """yields (label, program)"""
    g = gen.Gen(Rng(1), {"structs": True})
    g.structs = STRUCTS

    def dump(n, t):
        return g.dump(n, t) + [("println", ("text", []))]

    def prog(globals_, funcs, main):
        return dict(structs=STRUCTS, globals=globals_, funcs=funcs, main=main, types={})

    for ty, v1, v2, muts in holders():
        tn = gen.sx_type(ty)
        a, b = ("var", "a"), ("var", "b")
        da = ("decl", ty, "a", v1)
        for mname, mut in muts:
            lab = "%s:%s" % (tn, mname)
            # initialising, assigning: mutate either side, observe both
            for side, tg in (("copy", b), ("original", a)):
                yield lab + ":init:" + side, prog([da], [], [("decl", ty, "b", a)] + mut(tg) + dump("a", ty) + dump("b", ty))
                yield lab + ":assign:" + side, prog([da], [], [("decl", ty, "b", v2), ("assign", b, a)] + mut(tg) + dump("a", ty) + dump("b", ty))
            # value parameter: the callee changes its parameter
            f = dict(name="fn_wert", params=[("p", ty, False)], ret="N", body=mut(("var", "p")) + dump("p", ty))
            yield lab + ":value-arg", prog([da], [f], [("expr", ("call", "fn_wert", [("p", a)]))] + dump("a", ty))
            # Referenz parameter: the caller sees every change
            f = dict(name="fn_ref", params=[("p", ty, True)], ret="N", body=mut(("var", "p")) + dump("p", ty))
            yield lab + ":ref-arg", prog([da], [f], [("expr", ("call", "fn_ref", [("p", a)]))] + dump("a", ty))
            # the same variable twice (Referenz and Referenz; Referenz and value)
            f = dict(name="fn_zwei", params=[("p", ty, True), ("q", ty, True)], ret="N",
                     body=mut(("var", "p")) + dump("q", ty) + mut(("var", "q")) + dump("p", ty))
            yield lab + ":ref-twice", prog([da], [f], [("expr", ("call", "fn_zwei", [("p", a), ("q", a)]))] + dump("a", ty))
            # the same without anything else happening between the two writes and the reads (no output in between that
            # would make the optimiser look at the memory again): the values read are kept and printed at the end
            mut2 = {"Z": lambda tg: [("compound", "plus", tg, ("int", 3))], "K": lambda tg: [("assign", tg, ("float", gen.bits_of_float(0.25)))],
                    "C": lambda tg: [("assign", tg, ("char", 0x51))]}.get(ty, mut)
            f = dict(name="fn_zwei_still", params=[("p", ty, True), ("q", ty, True)], ret="N",
                     body=mut(("var", "p")) + [("decl", ty, "s1", ("var", "q"))] + mut2(("var", "q")) + [("decl", ty, "s2", ("var", "p"))]
                     + mut(("var", "p")) + mut2(("var", "q")) + [("decl", ty, "s3", ("var", "p"))] + dump("s1", ty) + dump("s2", ty) + dump("s3", ty))
            yield lab + ":ref-twice:quiet", prog([da], [f], [("expr", ("call", "fn_zwei_still", [("p", a), ("q", a)]))] + dump("a", ty))
            f = dict(name="fn_global_still", params=[("p", ty, True)], ret="N",
                     body=mut(a) + [("decl", ty, "s1", ("var", "p"))] + mut2(("var", "p")) + [("decl", ty, "s2", a)] + mut(a) + mut2(("var", "p"))
                     + [("decl", ty, "s3", a)] + dump("s1", ty) + dump("s2", ty) + dump("s3", ty))
            yield lab + ":global-ref:quiet", prog([da], [f], [("expr", ("call", "fn_global_still", [("p", a)]))] + dump("a", ty))
            f = dict(name="fn_gemischt", params=[("p", ty, True), ("q", ty, False)], ret="N",
                     body=mut(("var", "p")) + dump("q", ty) + mut(("var", "q")) + dump("p", ty))
            yield lab + ":ref-and-value", prog([da], [f], [("expr", ("call", "fn_gemischt", [("p", a), ("q", a)]))] + dump("a", ty))
            # a global the callee touches, passed as Referenz and as value
            for isref in (True, False):
                f = dict(name="fn_global", params=[("p", ty, isref)], ret="N",
                         body=mut(a) + dump("p", ty) + mut(("var", "p")) + dump("a", ty))
                yield lab + ":global-" + ("ref" if isref else "value"), prog([da], [f], [("expr", ("call", "fn_global", [("p", a)]))] + dump("a", ty))
            # a value parameter the callee only reads, while it changes the global that was passed
            # (the parameter is "constant" for the optimiser at -O 2)
            f = dict(name="fn_liest", params=[("p", ty, False)], ret="N",
                     body=mut(a) + [("decl", ty, "kopie", ("var", "p"))] + dump("kopie", ty))
            yield lab + ":global-value-readonly", prog([da], [f], [("expr", ("call", "fn_liest", [("p", a)]))] + dump("a", ty))
            f2 = dict(name="fn_aussen", params=[("q", ty, True)], ret="N",
                      body=[("expr", ("call", "fn_liest", [("p", ("var", "q"))]))])
            yield lab + ":ref-forwarded-readonly", prog([da], [f, f2], [("expr", ("call", "fn_aussen", [("q", a)]))] + dump("a", ty))
            # the caller is a function and passes its own local variable; the callee changes its value
            # parameter without showing it to anybody (what the optimiser at -O 2 must still notice)
            f = dict(name="fn_still", params=[("p", ty, False)], ret="N", body=mut(("var", "p")))
            f2 = dict(name="fn_lokal", params=[("u", "Z", False)], ret="N",
                      body=[("decl", ty, "lok", v1), ("expr", ("call", "fn_still", [("p", ("var", "lok"))]))] + dump("lok", ty))
            yield lab + ":local-value-arg-silent", prog([], [f, f2], [("expr", ("call", "fn_lokal", [("u", ("int", 0))]))])
            f3 = dict(name="fn_lokal2", params=[("u", "Z", False)], ret="N",
                      body=[("decl", ty, "lok", v1), ("decl", ty, "lok2", ("var", "lok")), ("expr", ("call", "fn_still", [("p", ("var", "lok2"))]))]
                      + dump("lok", ty) + dump("lok2", ty))
            yield lab + ":local-copy-value-arg-silent", prog([], [f, f3], [("expr", ("call", "fn_lokal2", [("u", ("int", 0))]))])
            # the same with the callee declared first (`wird später definiert`) and defined behind its callers: its body is
            # then looked at after other functions, and what it does to its parameter must still count for the callee
            fw = dict(f, forward=True)
            yield lab + ":local-value-arg-silent:forward-declared", prog([], [fw, f2], [("expr", ("call", "fn_lokal", [("u", ("int", 0))]))])
            yield lab + ":local-copy-value-arg-silent:forward-declared", prog([], [fw, f3], [("expr", ("call", "fn_lokal2", [("u", ("int", 0))]))])
            # recursion: the function hands its own value parameter to its own Referenz parameter, and changes that Referenz
            # parameter only further down in its text (what is known about a function while it is still being looked at)
            for order in ("call-first", "change-first"):
                rec = [("expr", ("call", "fn_rek", [("r", ("var", "v")), ("v", ("var", "v")), ("n", ("int", 1))]))] + dump("v", ty)
                chg = mut(("var", "r"))
                cond = ("bin", "eq", ("var", "n"), ("int", 0))
                body = [("if", cond, rec, chg)] if order == "call-first" else [("if", ("un", "not", cond), chg, rec)]
                f = dict(name="fn_rek", params=[("r", ty, True), ("v", ty, False), ("n", "Z", False)], ret="N", body=body)
                f2 = dict(name="fn_lokal", params=[("u", "Z", False)], ret="N",
                          body=[("decl", ty, "lx", v1), ("decl", ty, "ly", v2),
                                ("expr", ("call", "fn_rek", [("r", ("var", "lx")), ("v", ("var", "ly")), ("n", ("int", 0))]))]
                          + dump("ly", ty) + dump("lx", ty))
                yield lab + ":recursive-value-as-ref:" + order, prog([], [f, f2], [("expr", ("call", "fn_lokal", [("u", ("int", 0))]))])
            # returning a value parameter the function never changes: the result is a value of its own, whoever owned the argument
            # (a local of the caller, a copy of it, a global, a temporary)
            f = dict(name="fn_selbst", params=[("p", ty, False)], ret=ty, body=[("ret", ("var", "p"))])
            f2 = dict(name="fn_lokal", params=[("u", "Z", False)], ret="N",
                      body=[("decl", ty, "lok", v1), ("decl", ty, "erg", ("call", "fn_selbst", [("p", ("var", "lok"))]))] + mut(("var", "erg")) + dump("lok", ty) + dump("erg", ty)
                      + mut(("var", "lok")) + dump("erg", ty))
            yield lab + ":return-own-parameter:local", prog([], [f, f2], [("expr", ("call", "fn_lokal", [("u", ("int", 0))]))])
            yield lab + ":return-own-parameter:global", prog([da], [f], [("decl", ty, "b", ("call", "fn_selbst", [("p", a)]))] + mut(b) + dump("a", ty) + dump("b", ty))
            yield lab + ":return-own-parameter:temporary", prog([], [f], [("decl", ty, "b", ("call", "fn_selbst", [("p", v1)]))] + mut(b) + dump("b", ty))
            # returning: the result is a copy of the global
            f = dict(name="fn_gib", params=[("u", "Z", False)], ret=ty, body=[("ret", a)])
            yield lab + ":return", prog([da], [f], [("decl", ty, "b", ("call", "fn_gib", [("u", ("int", 0))]))] + mut(b) + dump("a", ty) + dump("b", ty))
            # storing into a list and into a field (Variable cannot be a list element type of the generator)
            if ty != "V" and not gen.is_list(ty):
                lt = ("L", ty)
                yield lab + ":into-list", prog([da], [], [("decl", lt, "l", ("list", ty, [a, a]))] + mut(a) + dump("l", lt) + dump("a", ty))
                yield lab + ":list-element-assign", prog([da], [], [("decl", lt, "l", ("list", ty, [v2, v2])), ("assign", ("bin", "index", ("var", "l"), ("int", 1)), a)]
                                                         + mut(a) + dump("l", lt) + dump("a", ty))
                if not gen.is_struct(ty):
                    yield lab + ":element-ref-arg", prog([da], [dict(name="fn_ref", params=[("p", ty, True)], ret="N", body=mut(("var", "p")))],
                                                         [("decl", lt, "l", ("list", ty, [a, v2])),
                                                          ("expr", ("call", "fn_ref", [("p", ("bin", "index", ("var", "l"), ("int", 1)))]))]
                                                         + dump("l", lt) + dump("a", ty))
                # iterating over a local list of a function while the body changes an element of that list through a Referenz
                # parameter (or assigns to it): the loop hands out the elements the list had on entry
                fr = dict(name="fn_ref", params=[("p", ty, True)], ret="N", body=mut(("var", "p")))
                for how, chg in (("ref", [("expr", ("call", "fn_ref", [("p", ("bin", "index", ("var", "ll"), ("int", 2)))]))]),
                                 ("assign", [("assign", ("bin", "index", ("var", "ll"), ("int", 2)), v2)])):
                    fl = dict(name="fn_lokal", params=[("u", "Z", False)], ret="N",
                              body=[("decl", lt, "ll", ("list", ty, [a, a, a])),
                                    ("foreach", ty, "x", None, ("var", "ll"), chg + dump("x", ty))] + dump("ll", lt))
                    yield lab + ":foreach-local-part-" + how, prog([da], [fr, fl], [("expr", ("call", "fn_lokal", [("u", ("int", 0))]))])
                # iterating: the loop variable is a copy, and the operand is evaluated once
                yield lab + ":foreach-var", prog([da], [], [("decl", lt, "l", ("list", ty, [a, v2])),
                                                            ("foreach", ty, "x", None, ("var", "l"), mut(("var", "x")) + dump("x", ty))] + dump("l", lt))
                yield lab + ":foreach-operand", prog([da], [], [("decl", lt, "l", ("list", ty, [a, v2])),
                                                                ("foreach", ty, "x", "k", ("var", "l"),
                                                                 [("assign", ("var", "l"), ("list", ty, [v2]))] + dump("x", ty))] + dump("l", lt))
        # a container by value together with a Referenz to one of its parts, in one call: the callee writes through
        # the Referenz and then reads its value parameter, which it never changes itself (at -O 2 such a parameter may
        # be passed without a copy only if nothing else can reach the variable)
        parts = {("L", "Z"): [("element", "Z", lambda c: ("bin", "index", c, ("int", 1)), ("int", 4711))],
                 ("L", "T"): [("element", "T", lambda c: ("bin", "index", c, ("int", 1)), txt("GEAENDERT"))],
                 K: [("field-text", "T", lambda c: ("field", "ft", c), txt("NEU")),
                     ("field-list", ("L", "Z"), lambda c: ("field", "fl", c), ("list", "Z", [("int", 8)])),
                     ("field-number", "Z", lambda c: ("field", "fz", c), ("int", 31))]}.get(ty, [])
        for pname, pty, part, newv in parts:
            f = dict(name="fn_teil", params=[("p", ty, False), ("q", pty, True)], ret="N",
                     body=[("assign", ("var", "q"), newv)] + dump("p", ty) + [("decl", ty, "kopie", ("var", "p"))] + dump("kopie", ty))
            call = lambda c: ("expr", ("call", "fn_teil", [("p", c), ("q", part(c))]))
            yield "%s:%s:part-ref-and-value:global" % (tn, pname), prog([da], [f], [call(a)] + dump("a", ty))
            f2 = dict(name="fn_lokal", params=[("u", "Z", False)], ret="N",
                      body=[("decl", ty, "lok", v1), call(("var", "lok"))] + dump("lok", ty))
            yield "%s:%s:part-ref-and-value:local" % (tn, pname), prog([], [f, f2], [("expr", ("call", "fn_lokal", [("u", ("int", 0))]))])
            f3 = dict(name="fn_param", params=[("lok", ty, False)], ret="N", body=[call(("var", "lok"))] + dump("lok", ty))
            yield "%s:%s:part-ref-and-value:parameter" % (tn, pname), prog([da], [f, f3], [("expr", ("call", "fn_param", [("lok", a)]))] + dump("a", ty))
        # a field of a Kombination as Referenz argument
        if ty in ("T", ("L", "Z")):
            fname = "ft" if ty == "T" else "fl"
            mut = holders()[0 if ty == "T" else 1][3][1][1]
            f = dict(name="fn_ref", params=[("p", ty, True)], ret="N", body=mut(("var", "p")))
            k1 = holders()[3][1]
            yield "%s:field-ref-arg" % tn, prog([("decl", K, "s", k1)], [f],
                                                [("decl", K, "s2", ("var", "s")), ("expr", ("call", "fn_ref", [("p", ("field", fname, ("var", "s")))]))]
                                                + dump("s", K) + dump("s2", K))


def overload_programs():
    """an operator overloaded by a function with a Referenz parameter that it changes, applied to a *value* parameter of
    the calling function: the change stays inside that function's copy (label, source, expected stdout)"""
    H = ('Binde "Duden/Ausgabe" ein.\n\nWir nennen die Kombination aus\n\tdem Text inhalt mit Standardwert "",\neine Kiste, und erstellen sie so:\n\t"eine Kiste mit <inhalt>"\n\n')
    ops = [
        ("binary:Text", 'Die Funktion op mit den Parametern z und w vom Typ Text Referenz und Buchstabe, gibt einen Text zurück, macht:\n\tSpeichere w in z an der Stelle 1.\n\tGib z zurück.\nUnd überlädt den "an der Stelle" Operator.\n\n',
         "Text", '"alt"', "(p an der Stelle 'X')", "Text", "Der", "Schreibe lok auf eine Zeile.\n", "alt\n"),
        ("binary:Kombination", 'Die Funktion op mit den Parametern a und n vom Typ Kiste Referenz und Zahl, gibt eine Zahl zurück, macht:\n\tSpeichere "NEU" in inhalt von a.\n\tGib n zurück.\nUnd überlädt den "plus" Operator.\n\n',
         "Kiste", '(eine Kiste mit "alt")', "(p plus 1)", "Zahl", "Die", "Schreibe (inhalt von lok) auf eine Zeile.\n", "alt\n"),
        ("unary:Kombination", 'Die Funktion op mit dem Parameter a vom Typ Kiste Referenz, gibt eine Zahl zurück, macht:\n\tSpeichere "NEU" in inhalt von a.\n\tGib 1 zurück.\nUnd überlädt den "Betrag" Operator.\n\n',
         "Kiste", '(eine Kiste mit "alt")', "(der Betrag von p)", "Zahl", "Die", "Schreibe (inhalt von lok) auf eine Zeile.\n", "alt\n"),
    ]
    out = []
    for lab, decl, ty, lit, use, rty, rart, show, exp in ops:
        art = "Der" if ty == "Text" else "Die"
        ret = {"Text": "einen Text", "Zahl": "eine Zahl"}[rty]
        f = ('Die Funktion f mit dem Parameter p vom Typ %s, gibt %s zurück, macht:\n\t%s %s r ist %s.\n\tGib r zurück.\nUnd kann so benutzt werden:\n\t"f <p>"\n\n'
             % (ty, ret, rart, rty, use))
        haupt = ('Die Funktion haupt gibt nichts zurück, macht:\n\t%s %s lok ist %s.\n\t%s %s erg ist f lok.\n\t%sUnd kann so benutzt werden:\n\t"haupt"\n\nhaupt.\n'
                 % (art, ty, lit[1:-1] if lit.startswith("(eine Liste") else lit, rart, rty, show))
        out.append(("overload-referenz:" + lab, H + decl + f + haupt, exp))
    return out


def check(res, tier):
    sd = seed()
    broken = leanproj.prove(res, "Props.C08", "Props/C08.lean")
    model = build_model()
    ddp = pipeline.build()
    quick = tier == "quick"
    cfgs = [pipeline.Config(opt=1), pipeline.Config(opt=2)] if quick else [pipeline.Config(opt=0), pipeline.Config(opt=2), pipeline.Config(opt=1, asan=True)]
    labelled = list(programs())
    st = evalcorr.judge_programs(res, ddp, model, [p for _, p in labelled], cfgs, "alias-matrix", max_report=5)
    for lab, _ in labelled:
        res.nontrivial(lab)
    fixed = overload_programs()
    fcfgs = [pipeline.Config(opt=0), pipeline.Config(opt=1), pipeline.Config(opt=2)]
    fouts = pipeline.farm(ddp, [({"main.ddp": src}, cfg, {}) for _, src, _ in fixed for cfg in fcfgs])
    for k, (lab, src, want) in enumerate(fixed):
        for cfg, r in zip(fcfgs, fouts[k * len(fcfgs):(k + 1) * len(fcfgs)]):
            res.evaluations += 1
            res.nontrivial(lab)
            if r.cls != "ok" or r.stdout != want:
                res.violation("%s:%s" % (lab, cfg.name()), "%s (%s): the caller's variable shows %r after a call that got it by value, expected %r (%s)" % (
                    lab, cfg.name(), r.stdout[-80:], want, r.cls), {"program": src, "expected_stdout": want, "config": cfg.name(), "implementation": r.as_dict()})
    rnd = random_programs(sd + 31, 120 if quick else 1500, feats={"structs": True, "funcs": True, "variable": True, "refs": True})
    st2 = evalcorr.judge_programs(res, ddp, model, rnd, cfgs[:1] if quick else cfgs[:2], "random")
    # the flags behind the -O 2 elision: the real annotator against the model whose soundness is a theorem
    res.extra["annotator_tie"] = constcorr.run(res, build_harness(), model, ddp, sd, 150 if quick else 2500)
    evalcorr.report_broken(res, broken)
    hist = Counter()
    for p in rnd:
        evalcorr.node_stats(p, hist)
    res.extra.update({"alias_matrix_programs": len(labelled), "alias_matrix_labels_sample": [l for l, _ in labelled[::17]],
                      "outcomes_matrix": dict(st), "random_programs": len(rnd), "outcomes_random": dict(st2),
                      "configs": [c.name() for c in cfgs],
                      "ref_params_in_random": hist.get("param:ref", 0), "value_params_in_random": hist.get("param:value", 0)})
    res.exhaustive = True
    res.rule = ("holder types {Text, Zahlen Liste, Text Liste, Kombination (Zahl, Text, Liste fields), Variable} x copy operation "
                "{initialise, assign, value argument, Referenz argument, same variable twice, Referenz+value, global touched by the "
                "callee, container by value + Referenz to its element/field in one call (caller's global, local, parameter), return, store into list, assign to list element, list element / field as Referenz argument, for-each variable, "
                "for-each operand reassigned in the body} x mutation {whole value, element/character, field, nested element, compound, "
                "append}, mutating either side and printing every holder; plus random programs with Referenz parameters")
    res.assumptions += ["lists of lists are outside the generator (no source spelling for the type; literal nesting crashes the code generator: C02 known finding)"]

"""C01 — compiled programs behave as DDP's evaluation rules prescribe.

Theorems: lean/Props/C01.lean (about the L2 evaluator lean/DDP/Spec).  Tie: programs from the
type-directed generator and the operator x type matrix are compiled with the working tree's kddp,
run, and compared (stdout, exit status, Laufzeitfehler or not) with `ddpmodel eval`."""
from collections import Counter

from .. import leanproj, pipeline, evalcorr, gen, opmatrix
from ..common import Rng, seed
from ..corr import build_model

FEATS = {"structs": True, "funcs": True, "variable": True}


def matrix_programs(model, rng, per_cell):
    """two passes: every (cell, operands) alone through the evaluator, then batches of the defined ones"""
    singles = opmatrix.cell_programs(rng, per_cell)
    mo = evalcorr.model_eval(model, [opmatrix.program_of(s[3]) for s in singles])
    batches, cur, n = [], [], 0
    cells = Counter()
    for s, (o, _) in zip(singles, mo):
        cells[o.split(":")[0]] += 1
        if o == "ok":
            cur += s[3]
            n += 1
            if n >= 25:
                batches.append(cur)
                cur, n = [], 0
        elif o == "laufzeitfehler":
            batches.append(cur + s[3])
            cur, n = [], 0
    if cur:
        batches.append(cur)
    return [opmatrix.program_of(b) for b in batches], cells, len(singles)


def random_programs(rng_seed, n, depth=2, stmts=6, feats=FEATS):
    out = []
    for i in range(n):
        g = gen.Gen(Rng(rng_seed * 100003 + i), feats, max_depth=depth)
        out.append(g.program(stmts))
    return out


def check(res, tier):
    sd = seed()
    rng = Rng(sd)
    broken = leanproj.prove(res, "Props.C01", "Props/C01.lean")
    model = build_model()
    ddp = pipeline.build()
    quick = tier == "quick"
    cfgs = [pipeline.Config(opt=1)] if quick else [pipeline.Config(opt=0), pipeline.Config(opt=1), pipeline.Config(opt=2)]
    mprogs, cells, nsingles = matrix_programs(model, rng, 3 if quick else 14)
    st = evalcorr.judge_programs(res, ddp, model, mprogs, cfgs, "matrix")
    n_full, n_min = (250, 150) if quick else (2500, 1200)
    full = random_programs(sd, n_full)
    st2 = evalcorr.judge_programs(res, ddp, model, full, cfgs, "random")
    mini = random_programs(sd + 7919, n_min, depth=3)
    st3 = evalcorr.judge_programs(res, ddp, model, mini, cfgs[:1] if quick else cfgs[1:2], "random-minimal", minimal=True)
    # what a call does with its arguments (value parameters are copies taken at the call, Referenz parameters are the
    # caller's storage) is part of the evaluation rules at every optimisation level: the call rows of the aliasing matrix
    from . import C08
    calls = [p for lab, p in C08.programs() if any(k in lab for k in ("-arg", "global-", "readonly", "silent", "part-ref", "ref-twice", "ref-and-value", "return"))]
    if quick:
        calls = calls[sd % 2::2]
    st4 = evalcorr.judge_programs(res, ddp, model, calls, [pipeline.Config(opt=2), pipeline.Config(opt=0)] if quick else cfgs, "calls", max_report=3)
    evalcorr.report_broken(res, broken)
    hist = Counter()
    for p in full + mini:
        evalcorr.node_stats(p, hist)
    res.extra.update({"matrix_cells": nsingles, "matrix_cell_outcomes": dict(cells), "matrix_batches": len(mprogs),
                      "random_programs": len(full), "random_programs_minimal_parentheses": len(mini),
                      "configs": [c.name() for c in cfgs], "outcomes_matrix": dict(st), "outcomes_random": dict(st2),
                      "outcomes_random_minimal": dict(st3), "call_programs": len(calls), "outcomes_calls": dict(st4),
                      "input_distribution": dict(sorted(hist.items(), key=lambda kv: -kv[1])[:60])})
    res.rule = ("every admissible (operator, operand types) cell with boundary operands (64-bit extremes, 0/1/-1, Byte 0..255, "
                "multi-byte code points, empty and short lists), and random well-typed programs (declarations, assignments to "
                "variables / list elements / fields, all loop forms with Verlasse/Fahre fort, functions with value and Referenz "
                "parameters, Kombinationen, Variable, conversions) printed fully parenthesised and with minimal parentheses: "
                "stdout, exit status and Laufzeitfehler of the compiled program against the L2 evaluator; the call rows of the aliasing matrix "
                "(value / Referenz / global / read-only parameters) at -O 0 and -O 2")
    res.assumptions += ["programs whose evaluation hits an LLVM-undefined operation (modulo 0, shift >= width, Kommazahl out of the "
                        "integer range, Buchstabe outside Unicode, negative repeat counts) are generated but not judged",
                        "LLVM, the C compiler and libc (printf %.16g, pow) are trusted"]
    if full:
        res.sample({"program": gen.pp_program(full[0])[:1500]})

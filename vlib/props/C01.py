"""C01 — compiled programs behave as DDP's evaluation rules prescribe.

Theorems: lean/Props/C01.lean (about the L2 evaluator lean/DDP/Spec).  Tie: programs from the
type-directed generator and the operator x type matrix are compiled with the working tree's kddp,
run, and compared (stdout, exit status, Laufzeitfehler or not) with `ddpmodel eval`."""
from collections import Counter

from .. import leanproj, pipeline, evalcorr, gen, opmatrix
from ..common import Rng, seed
from ..corr import build_model, build_harness
from .. import laddercorr

FEATS = {"structs": True, "funcs": True, "variable": True}


def matrix_programs(model, rng, per_cell):
    """two passes: every (cell, operands) alone through the evaluator, then batches of the defined ones"""
    singles = opmatrix.cell_programs(rng, per_cell)
    mo = evalcorr.model_eval(model, [opmatrix.program_of(s[3]) for s in singles])
    batches, cur, n = [], [], 0
    cells = Counter()
    for s, (o, _) in zip(singles, mo):
        cells[o.split(":")[0]] += 1
        if o == "ok":
            cur += s[3]
            n += 1
            if n >= 25:
                batches.append(cur)
                cur, n = [], 0
        elif o == "laufzeitfehler":
            batches.append(cur + s[3])
            cur, n = [], 0
    if cur:
        batches.append(cur)
    return [opmatrix.program_of(b) for b in batches], cells, len(singles)


def random_programs(rng_seed, n, depth=2, stmts=6, feats=FEATS):
    out = []
    for i in range(n):
        g = gen.Gen(Rng(rng_seed * 100003 + i), feats, max_depth=depth)
        out.append(g.program(stmts))
    return out


def loop_programs():
    """every loop form x what happens in an iteration {nothing, Fahre fort in some iterations, Verlasse in one, both} x
    what is observed afterwards in the same and in later iterations (counter, index, element) — also for a loop nested
    in another one of each form, where the jump belongs to the inner loop only"""
    I = lambda n: ("int", n)
    V = lambda n: ("var", n)
    eq = lambda a, b: ("bin", "eq", a, b)
    sep = ("print", ("text", [0x20]))
    nl = ("println", ("text", []))
    lst = ("list", "Z", [I(10), I(20), I(30), I(40), I(50)])
    txt = ("text", [0x61, 0xE4, 0x20AC, 0x1F600, 0x7A])

    def jumps(test):
        """test(n) -> condition 'this is iteration n' (1-based)"""
        return {"none": [],
                "continue-2": [("if", test(2), [("continue",)], [])],
                "continue-2-4": [("if", test(2), [("continue",)], []), ("if", test(4), [("continue",)], [])],
                "break-3": [("if", test(3), [("break",)], [])],
                "continue-1-break-4": [("if", test(1), [("continue",)], []), ("if", test(4), [("break",)], [])]}

    def forms(tag, inner_stmts):
        """(label, statements) for one loop of each form whose body is: count; jump?; observe; inner_stmts"""
        out = []
        cnt = "n" + tag
        count = [("compound", "plus", V(cnt), I(1))]
        for jn, j in jumps(lambda n: eq(V(cnt), I(n))).items():
            obs = [("print", V(cnt)), sep]
            body = count + j + obs + inner_stmts
            out.append(("while:" + jn, [("decl", "Z", cnt, I(0)), ("while", ("bin", "lt", V(cnt), I(5)), body)]))
            out.append(("dowhile:" + jn, [("decl", "Z", cnt, I(0)), ("dowhile", body, ("bin", "lt", V(cnt), I(5)))]))
            out.append(("repeat:" + jn, [("decl", "Z", cnt, I(0)), ("repeat", I(5), body)]))
            i = "i" + tag
            out.append(("for-up:" + jn, [("decl", "Z", cnt, I(0)), ("for", i, "Z", I(1), I(5), None, count + j + [("print", V(i)), sep] + obs + inner_stmts)]))
            out.append(("for-down-step:" + jn, [("decl", "Z", cnt, I(0)), ("for", i, "Z", I(9), I(1), I(-2), count + j + [("print", V(i)), sep] + obs + inner_stmts)]))
            x, k = "x" + tag, "k" + tag
            out.append(("foreach-index:" + jn, [("decl", "Z", cnt, I(0)), ("foreach", "Z", x, k, lst,
                        count + j + [("print", V(k)), sep, ("print", V(x)), sep] + inner_stmts)]))
            out.append(("foreach:" + jn, [("decl", "Z", cnt, I(0)), ("foreach", "Z", x, None, lst, count + j + [("print", V(x)), sep] + inner_stmts)]))
            out.append(("foreach-text-index:" + jn, [("decl", "Z", cnt, I(0)), ("foreach", "C", x, k, txt,
                        count + j + [("print", V(k)), sep, ("print", V(x)), sep] + inner_stmts)]))
        return out

    progs = []
    # the variable of a for-each loop is a copy of the element: assigning to it changes neither the container nor which
    # elements come next — over a Text for letters of every encoded width replaced by letters of every other width
    for at in (1, 2, 3, 4):
        for wl, letter in (("1", 0x3F), ("2", 0xDF), ("3", 0x20AC), ("4", 0x1F600)):
            for idx in (None, "k"):
                body = [("compound", "plus", V("n"), I(1)), ("print", V("x")), sep,
                        ("if", eq(V("n"), I(at)), [("assign", ("var", "x"), ("char", letter))], []), ("print", V("x")), sep]
                if idx:
                    body += [("print", V(idx)), sep]
                progs.append(("foreach-assign-text:%d:%s:%s" % (at, wl, "index" if idx else "plain"),
                              dict(structs=[], globals=[], funcs=[], types={},
                                   main=[("decl", "Z", "n", I(0)), ("decl", "T", "t", txt), ("foreach", "C", "x", idx, V("t"), body),
                                         nl, ("println", V("t")), ("println", V("n"))])))
    for idx in (None, "k"):
        body = [("compound", "plus", V("n"), I(1)), ("print", V("x")), sep,
                ("if", eq(V("n"), I(2)), [("assign", ("var", "x"), I(7))], []), ("print", V("x")), sep]
        progs.append(("foreach-assign-list:%s" % ("index" if idx else "plain"),
                      dict(structs=[], globals=[], funcs=[], types={},
                           main=[("decl", "Z", "n", I(0)), ("decl", ("L", "Z"), "l", lst), ("foreach", "Z", "x", idx, V("l"), body),
                                 nl, ("println", V("l")), ("println", V("n"))])))
    # `Wiederhole … n Mal`: a count of zero or below means no repetition at all, whatever numeric type the count has
    for cl, cnt in (("minus-1", I(-1)), ("minus-5", I(-5)), ("zero", I(0)), ("variable-minus-2", V("m")), ("computed", ("bin", "minus", I(2), I(4))),
                    ("kommazahl-minus", ("float", gen.bits_of_float(1.5) + 2 ** 63))):
        progs.append(("repeat-count:" + cl, dict(structs=[], globals=[], funcs=[], types={},
                                                 main=[("decl", "Z", "m", I(-2)), ("decl", "Z", "n", I(0)),
                                                       ("repeat", cnt, [("compound", "plus", V("n"), I(1)), ("if", ("bin", "gt", V("n"), I(7)), [("break",)], [])]),
                                                       ("println", V("n"))])))
    for lab, stmts in forms("a", []):
        progs.append((lab, dict(structs=[], globals=[], funcs=[], main=stmts + [nl, ("println", ("var", "na"))], types={})))
    # nested: the inner loop (with its own jumps) inside each outer form without jump; the outer index is observed after it
    inner = [(l, s) for l, s in forms("b", []) if l.split(":")[1] in ("continue-2", "break-3")]
    for ilab, istmts in inner:
        for olab, ostmts in forms("a", istmts + [("print", ("text", [0x7C]))]):
            if olab.split(":")[1] in ("none", "continue-2"):
                progs.append(("nested:%s/%s" % (olab, ilab), dict(structs=[], globals=[], funcs=[], main=ostmts + [nl], types={})))
    return progs


def float_equality_programs():
    """equality of Kommazahlen is equality of numbers wherever the numbers are held: alone, in a list, in a Kombination, in a
    Variable — 0,0 and -0,0 are equal, a value that is not a number (0,0 durch 0,0) equals nothing, not even itself"""
    F = lambda x: ("float", gen.bits_of_float(x))
    V = lambda n: ("var", n)
    zero, one = F(0.0), F(1.5)
    progs = []
    decls = [("decl", "K", "pz", zero), ("decl", "K", "nz", ("un", "negate", zero)), ("decl", "K", "nan", ("bin", "div", zero, zero))]
    for label, a, b in (("zero", V("pz"), V("nz")), ("nan", V("nan"), V("nan")), ("same", V("pz"), V("pz"))):
        holders = [("scalar", "K", a, b),
                   ("list", ("L", "K"), ("list", "K", [one, a]), ("list", "K", [one, b])),
                   ("list-first", ("L", "K"), ("list", "K", [a, one, one]), ("list", "K", [b, one, one])),
                   ("variable", "V", ("cast", a, "V"), ("cast", b, "V"))]
        for hl, ty, x, y in holders:
            main = decls + [("decl", ty, "x", x), ("decl", ty, "y", y),
                            ("println", ("bin", "eq", V("x"), V("y"))), ("println", ("bin", "ne", V("x"), V("y")))]
            progs.append(("float-equality:%s:%s" % (label, hl), dict(structs=[], globals=[], funcs=[], main=main, types={})))
            if label == "nan" and hl in ("list", "variable"):
                # a value compared with itself through one name is compared like any two equal-looking values
                main = decls + [("decl", ty, "x", x), ("println", ("bin", "eq", V("x"), V("x"))), ("println", ("bin", "ne", V("x"), V("x")))]
                progs.append(("float-equality:nan:%s-self" % hl, dict(structs=[], globals=[], funcs=[], main=main, types={})))
    return progs


def falls_programs():
    """chains of conditional expressions written without parentheses: `a, falls c1, ansonsten b, falls c2, ansonsten d` reads
    as a, falls c1, ansonsten (b, falls c2, ansonsten d) — every combination of conditions, 2 and 3 links, values of three types"""
    B = lambda v: ("bool", v)
    progs = []
    for ty, vals in (("Z", [("int", 1), ("int", 2), ("int", 3), ("int", 4)]),
                     ("T", [("text", [0x61]), ("text", [0x62]), ("text", [0x63]), ("text", [0x64])]),
                     ("W", [B(True), B(False), B(True), B(False)])):
        for links in (2, 3):
            for bits in range(2 ** links):
                conds = [bool(bits >> i & 1) for i in range(links)]
                main = [("decl", "W", "c%d" % i, B(c)) for i, c in enumerate(conds)]
                e = vals[links]
                for i in reversed(range(links)):
                    e = ("ter", "falls", vals[i], ("var", "c%d" % i), e)
                main += [("decl", ty, "r", e), ("println", ("var", "r"))]
                progs.append(("falls-chain:%s:%d:%s" % (ty, links, "".join("wf"[not c] for c in conds)),
                              dict(structs=[], globals=[], funcs=[], main=main, types={})))
    return progs


def check(res, tier):
    sd = seed()
    rng = Rng(sd)
    broken = leanproj.prove(res, "Props.C01", "Props/C01.lean")
    model = build_model()
    ddp = pipeline.build()
    quick = tier == "quick"
    cfgs = [pipeline.Config(opt=1)] if quick else [pipeline.Config(opt=0), pipeline.Config(opt=1), pipeline.Config(opt=2)]
    mprogs, cells, nsingles = matrix_programs(model, rng, 3 if quick else 14)
    st = evalcorr.judge_programs(res, ddp, model, mprogs, cfgs, "matrix")
    n_full, n_min = (250, 150) if quick else (2500, 1200)
    full = random_programs(sd, n_full)
    st2 = evalcorr.judge_programs(res, ddp, model, full, cfgs, "random")
    mini = random_programs(sd + 7919, n_min, depth=3)
    st3 = evalcorr.judge_programs(res, ddp, model, mini, cfgs[:1] if quick else cfgs[1:2], "random-minimal", minimal=True)
    # what a call does with its arguments (value parameters are copies taken at the call, Referenz parameters are the
    # caller's storage) is part of the evaluation rules at every optimisation level: the call rows of the aliasing matrix
    from . import C08
    calls = [p for lab, p in C08.programs() if any(k in lab for k in ("-arg", "global-", "readonly", "silent", "part-ref", "ref-twice", "ref-and-value", "return"))]
    if quick:
        calls = calls[sd % 2::2]
    st4 = evalcorr.judge_programs(res, ddp, model, calls, [pipeline.Config(opt=2), pipeline.Config(opt=0)] if quick else cfgs, "calls", max_report=3)
    loops = loop_programs()
    if quick:
        loops = loops[:40] + loops[40 + sd % 4::4]
    st5 = evalcorr.judge_programs(res, ddp, model, [p for _, p in loops], cfgs[:1] if quick else cfgs, "loops", max_report=4)
    for lab, _ in loops:
        res.nontrivial("loop:" + lab)
    fp = falls_programs()
    st6 = evalcorr.judge_programs(res, ddp, model, [p for _, p in fp], cfgs[:1], "falls-chains", minimal=True, max_report=4)
    for lab, _ in fp:
        res.nontrivial(lab)
    res.extra["outcomes_falls_chains"] = dict(st6)
    feq = float_equality_programs()
    want = evalcorr.model_eval(model, [p for _, p in feq])
    got = pipeline.farm(ddp, [(evalcorr.files_of(p), pipeline.Config(opt=1), {}) for _, p in feq])
    for (lab, p), (mo, mso), r in zip(feq, want, got):
        res.evaluations += 1
        res.nontrivial(lab)
        if mo == "ok" and (r.cls != "ok" or r.stdout != mso):
            res.violation(lab, "%s: equality of Kommazahlen depends on where they are held: the compiled program prints %r, the evaluation rules give %r" % (lab, r.stdout, mso),
                          {"program": gen.pp_program(p), "model": {"outcome": mo, "stdout": mso}, "implementation": r.as_dict()})
    # the ladder of the expression parser as a parser: model over the regenerated operator table vs the real parser
    lst = laddercorr.run(res, build_harness(), model, ddp, sd, *((400, 400, 150) if quick else (5000, 5000, 1500)))
    res.extra["ladder_tie"] = lst
    evalcorr.report_broken(res, broken)
    hist = Counter()
    for p in full + mini:
        evalcorr.node_stats(p, hist)
    res.extra.update({"matrix_cells": nsingles, "matrix_cell_outcomes": dict(cells), "matrix_batches": len(mprogs),
                      "random_programs": len(full), "random_programs_minimal_parentheses": len(mini),
                      "configs": [c.name() for c in cfgs], "outcomes_matrix": dict(st), "outcomes_random": dict(st2),
                      "outcomes_random_minimal": dict(st3), "call_programs": len(calls), "outcomes_calls": dict(st4), "loop_programs": len(loops), "outcomes_loops": dict(st5),
                      "input_distribution": dict(sorted(hist.items(), key=lambda kv: -kv[1])[:60])})
    res.rule = ("every admissible (operator, operand types) cell with boundary operands (64-bit extremes, 0/1/-1, Byte 0..255, "
                "multi-byte code points, empty and short lists), and random well-typed programs (declarations, assignments to "
                "variables / list elements / fields, all loop forms with Verlasse/Fahre fort, functions with value and Referenz "
                "parameters, Kombinationen, Variable, conversions) printed fully parenthesised and with minimal parentheses: "
                "stdout, exit status and Laufzeitfehler of the compiled program against the L2 evaluator; the call rows of the aliasing matrix "
                "(value / Referenz / global / read-only parameters) at -O 0 and -O 2; every loop form x {Fahre fort in some iterations, Verlasse, both} "
                "observing counter, index and element in the same and in later iterations, alone and nested in every other form; "
                "token sequences over the chain operators, prefix operators and parentheses (minimal-parentheses spellings of random trees, "
                "random operand/operator sequences, token soup): the tree in the real parser's AST against DDP.LadderParse.parse over the regenerated table")
    res.assumptions += ["programs whose evaluation hits an LLVM-undefined operation (modulo 0, shift >= width, Kommazahl out of the "
                        "integer range, Buchstabe outside Unicode, negative repeat counts) are generated but not judged",
                        "LLVM, the C compiler and libc (printf %.16g, pow) are trusted"]
    if full:
        res.sample({"program": gen.pp_program(full[0])[:1500]})

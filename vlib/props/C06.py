"""C06 — out-of-domain operations stop with a Laufzeitfehler, never silently."""
from .. import corr, leanproj, pipeline
from ..common import Rng, seed

I64MAX = 2 ** 63 - 1
HEAD = ('Binde "Duden/Ausgabe" ein.\n'
        'Die Funktion stupse mit dem Parameter r vom Typ Zahlen Referenz, gibt nichts zurück, macht:\n\tErhöhe r um 10.\n'
        'Und kann so benutzt werden:\n\t"Stupse <r>"\n\n'
        'Die Funktion stupseT mit dem Parameter r vom Typ Text Referenz, gibt nichts zurück, macht:\n\tSpeichere r verkettet mit "!" in r.\n'
        'Und kann so benutzt werden:\n\t"StupseT <r>"\n\n')


def int_expr(v):
    if v == -2 ** 63:
        return "-9223372036854775807 minus 1"
    return str(v)


def decl(kind, n):
    """declaration of a container `l` of length n; returns (source, element renderer)"""
    if kind == "zahl":
        vals = [str(10 + k) for k in range(n)]
        if n == 0:
            return "Die Zahlen Liste l ist eine leere Zahlen Liste.\n", vals
        return "Die Zahlen Liste l ist eine Liste, die aus %s besteht.\n" % ", ".join(vals), vals
    if kind == "text":
        vals = ["e%dä" % k for k in range(n)]
        if n == 0:
            return "Die Text Liste l ist eine leere Text Liste.\n", vals
        return "Die Text Liste l ist eine Liste, die aus %s besteht.\n" % ", ".join('"%s"' % v for v in vals), vals
    if kind == "string":
        vals = list("aä€😀xyz"[:n])
        return 'Der Text l ist "%s".\n' % "".join(vals), vals
    raise ValueError(kind)


def clamp(i, lo, hi):
    t = lo if i < lo else i
    return hi if t > hi else t


def access(kind, form, n, vals, i, j=None):
    """returns (statement source, expected stdout or None for Laufzeitfehler)"""
    ok = 1 <= i <= n
    if form == "rvalue":
        src = "Schreibe (l an der Stelle i) auf eine Zeile.\n"
        return src, (vals[i - 1] + "\n") if ok else None
    if form == "assign":
        new = {"zahl": "77", "text": '"neu"', "string": "'q'"}[kind]
        src = "Speichere %s in l an der Stelle i.\nSchreibe (l an der Stelle i) auf eine Zeile.\n" % new
        return src, ({"zahl": "77", "text": "neu", "string": "q"}[kind] + "\n") if ok else None
    if form == "ref":
        if kind == "zahl":
            return "Stupse (l an der Stelle i).\nSchreibe (l an der Stelle i) auf eine Zeile.\n", (str(int(vals[i - 1]) + 10) + "\n") if ok else None
        return "StupseT (l an der Stelle i).\nSchreibe (l an der Stelle i) auf eine Zeile.\n", (vals[i - 1] + "!\n") if ok else None
    if form == "nested":   # Text element of a list, then a Buchstabe of it
        src = "Schreibe ((l an der Stelle i) an der Stelle j) auf eine Zeile.\n"
        good = ok and 1 <= j <= len(vals[i - 1])
        return src, (vals[i - 1][j - 1] + "\n") if good else None
    if form in ("slice", "from", "to"):
        if form == "slice":
            a, b = i, j
            src = "l im Bereich von i bis j"
        elif form == "from":
            a, b = i, n
            src = "l ab dem i. Element"
        else:
            a, b = 1, i
            src = "l bis zum i. Element"
        if kind == "string":
            stmt = "Schreibe (%s) auf eine Zeile.\n" % src
        else:
            stmt = ("Für jede%s x in (%s), mache:\n\tSchreibe x.\n\tSchreibe \"|\".\nSchreibe \"\" auf eine Zeile.\n" %
                    (" Zahl" if kind == "zahl" else "n Text", src))
        if n == 0:
            return stmt, "\n"
        # `ab dem`/`bis zum` pass the other bound as length resp. 1 — clamping applies to both
        ca, cb = clamp(a, 1, n), clamp(b, 1, n)
        if cb < ca:
            return stmt, None
        part = vals[ca - 1:cb]
        if kind == "string":
            return stmt, "".join(part) + "\n"
        return stmt, "".join(p + "|" for p in part) + "\n"
    raise ValueError(form)


def gen(tier, rng):
    progs = []
    ns = (0, 1, 3) if tier == "quick" else (0, 1, 2, 3, 4, 5, 6)
    for kind in ("zahl", "text", "string"):
        forms = ["rvalue", "assign", "slice", "from", "to"]
        if kind in ("zahl", "text"):
            forms.append("ref")
        if kind == "text":
            forms.append("nested")
        for n in ns:
            d, vals = decl(kind, n)
            idxs = sorted(set(list(range(-2, n + 3)) + [I64MAX, -I64MAX, -2 ** 63, 2 ** 32, 255, 256]))
            if tier == "quick":
                idxs = [x for x in idxs if x not in (-I64MAX, 2 ** 32, 255)]
            for form in forms:
                batch_src, batch_want, nb = "", "", 0
                for i in idxs:
                    js = [None]
                    if form == "slice":
                        js = sorted(set([i - 1, i, i + 1, n, n + 1, 0, I64MAX])) if tier == "thorough" else [i - 1, i, n + 1]
                        js = [j for j in js if -2 ** 63 <= j <= I64MAX]
                    if form == "nested":
                        js = [0, 1, 3, 4]
                    for j in js:
                        stmt, exp = access(kind, form, n, vals, i, j)
                        if exp is not None and form in ("rvalue", "slice", "from", "to", "nested"):
                            # in-domain, side-effect free: batched into one program per (kind, form, n)
                            batch_src += "Speichere %s in i.\n" % int_expr(i)
                            if j is not None:
                                batch_src += "Speichere %s in j.\n" % int_expr(j)
                            batch_src += stmt
                            batch_want += exp
                            nb += 1
                            continue
                        src = HEAD + d + "Die Zahl i ist %s.\n" % int_expr(i)
                        if j is not None:
                            src += "Die Zahl j ist %s.\n" % int_expr(j)
                        src += 'Schreibe "start" auf eine Zeile.\n' + stmt + 'Schreibe "ende" auf eine Zeile.\n'
                        want = None if exp is None else "start\n" + exp + "ende\n"
                        progs.append((src, want, (kind, form, n, i, j)))
                if nb:
                    src = (HEAD + d + "Die Zahl i ist 0.\nDie Zahl j ist 0.\n" + 'Schreibe "start" auf eine Zeile.\n' + batch_src +
                           'Schreibe "ende" auf eine Zeile.\n')
                    progs.append((src, "start\n" + batch_want + "ende\n", (kind, form, n, "in-domain x%d" % nb, None)))
    # the same accesses with an index of type Byte (unsigned 8 bit: 0 is below every list, 255 above these)
    for kind in ("zahl", "text", "string"):
        forms = ["rvalue", "assign", "from", "to", "slice"] + (["ref"] if kind in ("zahl", "text") else [])
        for n in (0, 1, 3):
            d, vals = decl(kind, n)
            for form in forms:
                for i in sorted({0, 1, n, n + 1, 255}):
                    j = None
                    if form == "slice":
                        j = min(i + 1, 255)
                    stmt, exp = access(kind, form, n, vals, i, j)
                    src = HEAD + d + "Der Byte i ist (%d als Byte).\n" % i
                    if j is not None:
                        src += "Der Byte j ist (%d als Byte).\n" % j
                    src += 'Schreibe "start" auf eine Zeile.\n' + stmt + 'Schreibe "ende" auf eine Zeile.\n'
                    progs.append((src, None if exp is None else "start\n" + exp + "ende\n", (kind, form + ":byte-index", n, i, j)))
    # the value obtained is never used (a local of a function that is not read again): the access still has to stop the program
    ELEM = {"zahl": "Die Zahl", "text": "Der Text", "string": "Der Buchstabe"}
    CONT = {"zahl": "Die Zahlen Liste", "text": "Die Text Liste", "string": "Der Text"}
    for kind in ("zahl", "text", "string"):
        for n in ns:
            d, vals = decl(kind, n)
            for form, body in (("unused-index", "%s weg ist (l an der Stelle a)." % ELEM[kind]),
                               ("unused-slice", "%s weg ist (l im Bereich von a bis b)." % CONT[kind]),
                               ("unused-index-in-condition", "Wenn (l an der Stelle a) gleich (l an der Stelle a) ist, dann:\n\t\tDie Zahl platzhalter ist 0.")):
                fn = ('Die Funktion tu mit den Parametern a und b vom Typ Zahl und Zahl, gibt nichts zurück, macht:\n\t%s\nUnd kann so benutzt werden:\n\t"tu <a> <b>"\n\n' % body)
                for i in sorted(set([-1, 0, 1, n, n + 1, n + 2, I64MAX, -2 ** 63])):
                    j = n + 1 if form == "unused-slice" else 0
                    if form == "unused-slice":
                        good = n == 0 or clamp(j, 1, n) >= clamp(i, 1, n)
                    else:
                        good = 1 <= i <= n
                    src = (HEAD + d + fn + 'Schreibe "start" auf eine Zeile.\ntu %s %s.\nSchreibe "ende" auf eine Zeile.\n' % (
                        int_expr(i) if i >= 0 else "(%s)" % int_expr(i), int_expr(j)))
                    progs.append((src, "start\nende\n" if good else None, (kind, form, n, i, j)))
    vsrc = ('Die Funktion tu mit dem Parameter v vom Typ Variable, gibt nichts zurück, macht:\n\tDie Zahl weg ist (v als Zahl).\nUnd kann so benutzt werden:\n\t"tu <v>"\n\n')
    for lit, good in (("5", True), ('"t"', False), ("1,5", False)):
        progs.append((HEAD + vsrc + 'Die Variable w ist %s.\nSchreibe "start" auf eine Zeile.\ntu w.\nSchreibe "ende" auf eine Zeile.\n' % lit,
                      "start\nende\n" if good else None, ("variable", "unused-cast", lit, 0, None)))
    # Variable casts and `...`
    for held, lit, target, shown in (("Zahl", "5", "Zahl", "5"), ("Zahl", "5", "Text", None), ("Text", '"t"', "Text", "t"),
                                     ("Text", '"t"', "Zahl", None), ("Kommazahl", "1,5", "Zahl", None), ("Wahrheitswert", "wahr", "Wahrheitswert", "wahr")):
        src = HEAD + "Die Variable v ist %s.\nSchreibe \"start\" auf eine Zeile.\nSchreibe (v als %s) auf eine Zeile.\nSchreibe \"ende\" auf eine Zeile.\n" % (lit, target)
        progs.append((src, None if shown is None else "start\n%s\nende\n" % shown, ("variable", held, target, 0, None)))
    progs.append((HEAD + 'Schreibe "start" auf eine Zeile.\n...\nSchreibe "ende" auf eine Zeile.\n', None, ("todo", "", 0, 0, None)))
    return progs


def judge(want, r):
    """the property on the implementation's run: None = fine"""
    if r.stage != "run":
        return "program was not compiled: " + r.cls
    if want is None:
        if r.cls != "laufzeitfehler" or r.exit != 1:
            return "out-of-domain operation did not stop with a Laufzeitfehler (class %s, exit %s, stdout %r)" % (r.cls, r.exit, r.stdout[-80:])
        if not r.stdout.startswith("start\n") or "ende" in r.stdout:
            return "Laufzeitfehler, but execution continued / did not start: %r" % r.stdout
        if "Laufzeitfehler" not in r.stderr:
            return "no Laufzeitfehler message on standard error"
        return None
    if r.cls != "ok" or r.exit != 0:
        return "in-domain access failed (%s, exit %s): %s" % (r.cls, r.exit, r.stderr[-200:])
    if r.stdout != want:
        return "in-domain access gives %r, expected %r" % (r.stdout, want)
    return None


def search_index(model, which):
    """when the index obligation broke: evaluate the regenerated check against the
    specification on a boundary grid; returns a differing (idx, len) or None"""
    grid_i = sorted(set(list(range(-3, 8)) + [I64MAX, I64MAX - 1, -2 ** 63, -I64MAX, 2 ** 32, 255, 256]))
    lines, meta = [], []
    for n in range(0, 6):
        for i in grid_i:
            lines.append("idxcheck %s %d %d" % (which, i, n))
            meta.append((i, n))
    out = corr.run_lines(model, lines)
    for (i, n), o in zip(meta, out):
        f = o.split()
        inr = f and f[0] == "1"
        if inr != (1 <= i <= n) or (inr and int(f[1]) != i - 1):
            return (i, n, o)
    return None


def check(res, tier):
    rng = Rng(seed())
    broken = leanproj.prove(res, "Props.C06", "Props/C06.lean")
    model = corr.build_model()
    ddp = pipeline.build()
    progs = gen(tier, rng)
    cfgs = [pipeline.Config(opt=1)] if tier == "quick" else [pipeline.Config(opt=0), pipeline.Config(opt=2)]
    jobs = []
    for src, want, meta in progs:
        for cfg in cfgs:
            jobs.append(({"main.ddp": src}, cfg))
    outs = pipeline.farm(ddp, jobs)
    res.evaluations = len(jobs)
    k = 0
    nerr = 0
    for src, want, meta in progs:
        for cfg in cfgs:
            r = outs[k]
            k += 1
            res.nontrivial(str(meta))
            nerr += want is None
            why = judge(want, r)
            if why:
                res.violation("program:%s:%s" % (meta, cfg.name()), why,
                              {"program": src, "expected_stdout": want, "expected": "Laufzeitfehler" if want is None else "normal",
                               "implementation": r.as_dict(), "config": cfg.name(), "case": list(map(str, meta))})
    # the regenerated checks against the list specification on a grid (exhaustive small lengths)
    lines = []
    for n in range(0, 5):
        for a in list(range(-2, n + 3)) + [I64MAX, -2 ** 63]:
            for b in list(range(-2, n + 3)) + [I64MAX, -2 ** 63]:
                lines.append("slicecheck %d %d %d" % (a, b, n))
    outs2 = corr.run_lines(model, lines)
    for l, o in zip(lines, outs2):
        _, a, b, n = l.split()
        a, b, n = int(a), int(b), int(n)
        if n == 0:
            want = "empty"
        else:
            ca, cb = clamp(a, 1, n), clamp(b, 1, n)
            want = "error" if cb < ca else "copy %d %d" % (ca - 1, cb - ca + 1)
        res.evaluations += 1
        if o != want:
            res.violation("slicefacts:%s" % l, "the regenerated slice skeleton disagrees with the documented clamping: %s vs %s" % (o, want),
                          {"request": l, "generated": o, "specification": want}, has_input=False)
    for bk in broken:
        found = None
        for which in ("rvalue", "lvalue"):
            if which in bk["name"] or "idx_core" in bk["name"]:
                found = search_index(model, which)
                if found:
                    i, n, o = found
                    d, vals = decl("zahl", n)
                    form = "rvalue" if which == "rvalue" else "assign"
                    stmt, exp = access("zahl", form, n, vals, i)
                    src = HEAD + d + "Die Zahl i ist %s.\n" % int_expr(i) + 'Schreibe "start" auf eine Zeile.\n' + stmt + 'Schreibe "ende" auf eine Zeile.\n'
                    want = None if exp is None else "start\n" + exp + "ende\n"
                    r = pipeline.compile_run(ddp, {"main.ddp": src}, pipeline.Config(opt=0))
                    why = judge(want, r)
                    res.violation("obligation+input:%s:%d:%d" % (which, i, n),
                                  "the %s index check emitted by the compiler is wrong for index %d, length %d (generated check says %s)%s" % (
                                      which, i, n, o, "; program: " + why if why else "; the compiled program happened to behave"),
                                  {"theorem": bk["name"], "index": i, "length": n, "generated_check": o, "program": src,
                                   "implementation": r.as_dict()}, has_input=bool(why))
                    break
        if not found:
            res.violation("obligation:" + bk["name"], "proof obligation no longer checks: %s" % bk["name"],
                          {"theorem": bk["name"], "detail": bk["detail"], "kind": "broken-obligation"}, has_input=False)
    res.extra.update({"programs": len(progs), "configs": [c.name() for c in cfgs], "expected_laufzeitfehler": nerr,
                      "slice_grid": len(lines)})
    res.exhaustive = True
    res.rule = ("for container kinds Zahlen Liste / Text Liste / Text, lengths %s, every access form (rvalue, assignment target, Referenz "
                "argument, nested, three slice forms) and every index in -2..n+2 plus 64-bit extremes: one compiled program each, outcome "
                "class and output judged against the specification; Variable casts and `...`; regenerated slice skeleton on a grid") % (
                    "0,1,3" if tier == "quick" else "0..6")
    for i in (0, len(progs) // 2, len(progs) - 1):
        res.sample({"case": list(map(str, progs[i][2])), "expected": progs[i][1], "implementation": outs[i * len(cfgs)].as_dict()})
    res.assumptions += ["LLVM keeps the emitted branch (trusted)", "lengths are non-negative (established by construction of lists)"]

"""Regenerates MANIFEST.json from the table below: python3 -m vlib.manifest"""
import json
import os

from .common import VERIF

BASELINE_OFF = "cd /repo && go test -mod=mod -json -vet=off -count=1 -timeout 25m ./..."

TB = ("Lean 4.33.0 kernel (+ leanchecker in the thorough tier); axioms propext/Classical.choice/Quot.sound only, audited with "
      "#print axioms per theorem; no sorry/native_decide/bv_decide/axiom (grep on every run); the translator (T-gen) and the "
      "correspondence drivers (T-corr) are unverified programs. ")

CHECKS = {
    "C01": dict(
        text=("Proof (Lean 4) about the L2 reference evaluator (lean/DDP/Spec: total functions evalExpr/execStmt/execLoop/... by "
              "structural recursion on fuel, values Zahl=Int wrapped to 64 bit, Kommazahl=IEEE double, Byte, Buchstabe, Text=code points, "
              "lists, Kombinationen, Variable, a store with locations and paths for Referenz parameters): 49 theorems for the rules the "
              "property names — 64-bit wrap-around (range, identity, congruence), Byte arithmetic, mixed Zahl/Byte/Kommazahl operands, all "
              "conversions, short-circuit `und`/`oder`/`falls` (the skipped operand is irrelevant for every expression b), left-to-right "
              "operands, 1-based indexing and out-of-range = Laufzeitfehler, slices = drop/take of clamped bounds incl. crossed bounds, "
              "equality per type (lists element-wise, length mismatch, Variable by tag and payload), loop unfolding (end, round, Verlasse, "
              "Fahre fort, for-each). Tie (T-corr through the real compiler): the full operator x admissible-operand-type matrix "
              "(~900 cells x boundary operands) and type-directed random programs (all statement forms, functions with value/Referenz "
              "parameters, Kombinationen, Variable), printed fully parenthesised AND with minimal parentheses derived from the ladder of "
              "expressions.go, compiled by the working tree's kddp, run, and compared with the evaluator on stdout, exit status and "
              "Laufzeitfehler; disagreements are minimised by statement-level delta debugging and replayable one by one. Eight defects "
              "found this way were repaired (fix: commits). The precedence ladder of src/parser/expressions.go is REGENERATED on every "
              "run (per rung: rungs called, loop tokens, operand rungs inside the loop, rebinding vs returning loop body, operators built) "
              "and 11 theorems state it is the documented one: rung order, ten left-associative chains whose operands all come from the "
              "next tighter rung, each of 36 operators built on its rung and no looser one, prefix forms, the shape of falls / hoch / unary. "
              "Further fixed matrices: every loop form x jumps observing counter/index/element (296 programs), equality of Kommazahlen per holder. "
              "The ladder is also modelled AS A PARSER (DDP.LadderParse: ifExpression / boolXOR / ten chain rungs / unary / grouping over an operator table, generic in the table; the table of "
              "the DDP in /repo is computed from the regenerated ladder): parse_pp — for every table and every tree, parsing the "
              "minimal-parentheses spelling (the printer of the program generator) gives back the tree, at every rung and in every context; "
              "pp_injective; fuel_suffices / parseAll_pp (the statement without fuel); tie: token sequences (spellings of random trees, random "
              "operand/operator sequences with parentheses, token soup) given to the model and, spelled as DDP, to the real parser, trees compared. "
              "Chains of `falls` without parentheses (every combination of conditions), `Wiederhole n Mal` with counts <= 0, for-each loops "
              "whose body assigns to the loop variable."),
        note=TB + "The code generator, LLVM and libc are reached by correspondence only (partial): instruction selection, "
             "optimisation passes and printf are not modelled. Programs that hit LLVM-undefined operations are not judged. "
             "The parser model covers `falls`, `entweder`, the ten chain rungs incl. comparisons and shifts with their closing words, prefix operators and grouping (equality / zwischen / hoch / slicing / indexing / casts: "
             "shape theorems over the regenerated ladder only); no theorem states type soundness of the evaluator. "
             "Known findings: Kommazahlen held in Variablen compare by bytes; a list holding a not-a-number value equals itself through one name.",
        technique="Lean 4 proof about a total reference evaluator and over the regenerated precedence ladder + differential correspondence of generated programs through the real compiler",
        ref="§5 C01",
    ),
    "C02": dict(
        text=("Proof (Lean 4), for ALL type terms (aliases, definitions, lists, Kombinationen of any nesting, not a finite table): whenever "
              "the model of the type checker's operator rules (DDP.Checker.admits, transcribed from VisitUnary/Binary/TernaryExpr) admits "
              "an operator application with result type t, the model of the code generator's lowering table (DDP.Lowering.lowerTy over IR "
              "types, transcribed from compiler.go) has a case whose instruction is well-typed and whose result IR type is toIr(t) — all 5 "
              "unary, 29 binary and 3 ternary operators (accepted_lowers_unary / _binary_scalar / _index_slice / _ternary / _concat). The "
              "concat theorem carries the exact side condition found by the proof attempt (operands that are a type definition of Text or "
              "of a list) with a witness theorem of the mismatch. Tie: every operator and cast applied to every tuple of 19 operand "
              "classes (12.5k cells): checker verdict and result type compared with the model in-process; every accepted cell compiled "
              "by the real code generator + LLVM in up to seven value contexts (initialiser, Variable, assignment, argument, return, list "
              "element, condition); lowering model compared with the compile outcome. Casts and contexts are decided by that exhaustive "
              "enumeration only (no Lean model). Six defects found this way were repaired (fix: commits), three are recorded findings."),
        note=TB + "User overloads and generics are outside the two models; multi-feature programs are sampled by other generators.",
        technique="Lean 4 proof (checker table vs lowering table, all type terms) + exhaustive operator-cell correspondence through the real compiler",
        ref="§5 C02",
    ),
    "C03": dict(
        text=("Partial. Proof (Lean 4) for the modelled pieces of the front end: the scanner returns on every source text in every mode "
              "(scanner_returns = scan_total of C13) and yields at most |source|+1 tokens (token_count_bounded, from the partition "
              "theorem), the unifier adds at most one binding per step, the initialisation walk only visits modules bounded by its "
              "start (init_walk_bounded), the recursion through alias-argument sub-parsers is bounded by the token count iff every pattern "
              "has a word, and the EXPRESSION LADDER (ten chain rungs, unary, primary/grouping; DDP.LadderParse over the table regenerated "
              "from expressions.go, tied to the real parser's trees) terminates on every token sequence: every successful rung consumes a "
              "token (ladder_rungs_consume) and from |ts|*15+11-k units of fuel on the answer of rung k — acceptance or rejection — no "
              "longer depends on the fuel (expression_ladder_terminates; |ts|*15 since conditional expressions and entweder are in the model). The rest of the recursive-descent parser (statements, declarations, "
              "alias matching proper), the resolver and the type checker have NO Lean model; for them the "
              "check is a search: every input is parsed in a sacrificial harness process (panics answered by the harness, fatal "
              "errors and hangs detected by the driver, the culprit re-run alone with time and memory limits): all token strings up to "
              "length 2 (quick) / 3 (thorough, 16k) over a 25-symbol alphabet of lexical classes, token and byte mutants (incl. "
              "invalid UTF-8) of generated programs and Duden sources, deep nestings, import arrangements (missing files, "
              "directories, cycles 1-4, self-import, broken imported modules, odd paths, empty modules), plus a corpus of the inputs "
              "that crashed before their repair. Three front-end crashes found this way were repaired (fix: commits)."),
        note=TB + "For parser/resolver/typechecker the evidence is the crash probe only — bounded search, stated as such; unbounded memory "
             "growth is detected only through the per-process memory limit.",
        technique="Lean 4 proof for scanner/unifier/import walk + crash probe of the real front end in sacrificial processes (search, not proof, for the parser)",
        ref="§5 C03",
    ),
    "C04": dict(
        text=("Proof (Lean 4) about DDP.Spec.checkProgram, the statement of the static rules for the core language (typeOf over all "
              "expression forms with the operand rules of typechecker.go, scopes, loop depth, final return): rule by rule, what the "
              "property lists is rejected — undeclared names (undeclared_name, undeclared_in_initialiser), redeclaration in one scope "
              "(redeclaration), names after their block (block_scope_ends), initialisers and assigned values outside exactly {equal, "
              "numeric for numeric, anything into a Variable} (initialiser_rule as an iff, wrong_initialiser, wrong_assignment), "
              "non-Wahrheitswert conditions, non-numeric loop bounds, wrong operands, wrong argument types, values for Referenz "
              "parameters, wrong returned values, Verlasse/Fahre fort outside loops, missing final return; and a rejected statement "
              "rejects every block around it (block_rejects). Tie: random well-formed programs and per program AST mutants (a literal "
              "of another type at a random expression position, undeclared / out-of-scope names, redeclaration, break outside loop, "
              "missing return) whose verdict the Lean checker decides, plus text-level variants ill-formed by construction (wrong "
              "article, Konstante assigned / compound-assigned / passed as Referenz incl. elements and characters, return outside a "
              "function): the front end must reject what the rules reject (property) and accept what they accept (validates the rules)."),
        note=TB + "Visibility across modules is covered under C10; aliases/overloads and generics are outside the statement of the rules.",
        technique="Lean 4 statement of the static rules with rejection theorems + two-directional verdict correspondence on generated programs and mutants",
        ref="§5 C04",
    ),
    "C05": dict(
        text=("Proof (Lean 4) about the heap ledger DDP.Ledger (the contract of ddp_reallocate(pointer, oldSize, newSize) as a state "
              "machine over the set of live blocks): a released block cannot be released or resized again (no_double_release), a "
              "resize/release is accepted only with the block's true size (sizes_true), what is not owned is refused (foreign_refused), "
              "live addresses stay distinct (step_distinct), along every accepted trace live = obtained - given up (balance), hence a "
              "trace accepted from the empty heap that ends with no live block obtained exactly as many blocks as it released "
              "(exactly_once). Ties: the same machine in C (rtharness/ledger.c) is linked into compiled programs with "
              "--wrap=ddp_reallocate; (1) every real trace and thousands of mutated, contract-breaking traces (replayed through the C "
              "ledger with a scripted allocator) are judged by both machines and must get the same verdict; (2) programs: control-flow "
              "matrix {for, for with step, while, do-while, repeat, for-each} x {normal end, Verlasse, Fahre fort, both from a nested "
              "block} x temporaries of five non-primitive kinds in header, condition and body; early return from nested scopes; "
              "short-circuit, conditional expressions, discarded results, Variable boxing, fields, character assignment, Laufzeitfehler "
              "midway; the aliasing matrix of C08; random programs — each with the ledger (no contract violation, nothing live at "
              "normal exit) and under ASan/UBSan/LSan. Seven heap defects found with this machinery were repaired (fix: commits). "
              "Second model, DDP.Own (lean/DDP/Impl/Own.lean): the code generator's compile-time ownership bookkeeping for the fragment whose "
              "values are Texte — latestIsTemp, scope.temporaries/variables, claimOrCopy, claimTemporary (current scope only), exitScope, "
              "exitNestedScopes on Verlasse/Fahre fort, the releases in front of a return, caller-copies/callee-frees, sub-scopes of "
              "short-circuited operands — as a compiler from function bodies to abstract code (fromConst/copy/free/move/concat/equal/call over "
              "slots in seq/choice/loop/brk/cont/ret) and an abstract machine over the set of owning slots. Theorem fn_balanced (induction "
              "over expressions, conditions and, mutually, statements and statement lists; loops by induction on fuel): for EVERY well-scoped "
              "body and EVERY sequence of branch decisions the compiled code never releases or reads a slot that owns nothing, never "
              "overwrites an owner, and ends owning nothing but the returned value. Tie: generated bodies (192 systematic loop-in-loop "
              "nestings with jumps + random) compiled by the real kddp -O 0; the ownership-relevant calls per function in the LLVM IR must "
              "equal callCounts(compileFn body); a disagreement is re-run under the heap ledger (failing input) or reported as broken tie."),
        note=TB + "DDP.Own covers Texte only: lists, Kombinationen, Variablen, Referenz parameters, for-each, globals and the -O 2 copy "
             "elision are reached through the programs only (partial); the tie compares call counts per function, not their order. "
             "Memory obtained outside ddp_reallocate is outside the ledger; ASan's verdict is trusted.",
        technique="Lean 4 proofs (heap-contract state machine; ownership model of the code generator: every body, every path) + ledger linked into compiled programs, IR call counts of kddp -O 0 vs the model; sanitizers",
        ref="§5 C05",
    ),
    "C06": dict(
        text=("Proof (Lean 4) over the REGENERATED comparison facts (translator re-extracts, on every run, the icmp predicates, operand "
              "order, subtraction constants and clamp skeleton that compiler.go / list_types.go emit) interpreted over BitVec 64: for all "
              "2^64 x 2^64 (index, length) pairs the list index check (value position and assignment-target/Referenz position) passes iff "
              "1 <= index <= length and then addresses element index-1 (incl. index = -2^63 where index-1 wraps); Byte indices after "
              "zero-extension; list slices: empty list -> empty, bounds clamped into 1..length, Laufzeitfehler iff crossed after clamping, "
              "otherwise exactly b-a+1 elements from a-1, inside the list; text index/replace/slice error exactly outside the domain (C "
              "runtime model shared with C12). Tie: T-gen (a changed predicate changes the generated definition and the theorem over it "
              "stops checking; the check then evaluates the generated check against the specification on a boundary grid and compiles the "
              "differing (index,length) as a program) + compiled programs for Zahlen Liste / Text Liste / Text, lengths 0,1,3 (thorough "
              "0..6), every access form (rvalue, assignment target, Referenz argument, nested, three slice forms), every index -2..n+2 and "
              "the 64-bit extremes, Variable casts, `...`; outcome class, exit status and output judged against the specification."),
        note=TB + "Assumes list lengths are non-negative and that LLVM keeps the emitted branch. Variable-cast and `...` behaviour are "
             "covered by compiled programs only (no theorem).",
        technique="Lean 4 proof over regenerated bounds predicates (BitVec 64) + compiled-program correspondence",
        ref="§5 C06",
    ),
    "C07": dict(
        text=("Proof (Lean 4): with `deliver` = the wrapper parser.Parse puts around the error handler, the module is faulty exactly when "
              "an error-level diagnostic was delivered (faulty_iff_error, by induction over any sequence of diagnostics), warnings "
              "alone never fail (warnings_dont_fail), the order of delivery is irrelevant (faulty_perm), the exit status is non-zero "
              "iff an error was delivered and then no artefact is left, and without errors there is one (exit_iff_error, "
              "no_artefact_on_failure, artefact_without_errors); with `render` = the indexing of ddperror.MakeAdvancedHandler as a "
              "partial function over the lines of the file, EVERY range that lies inside the text (inText: both ends positions of the "
              "text, start not after end) is rendered without an out-of-range slice (render_total), and the hypothesis is needed "
              "(witness). Tie: on well-formed programs, the same with a `...` statement (warning only), AST/text mutants, an error "
              "inside an imported module and malformed inputs the real front end is monitored: Faulty == some delivered diagnostic "
              "has level error (level constants regenerated from ddperror/error.go), every range names a file of the compilation and "
              "satisfies inText (the monitor is compared with the Lean predicate on every diagnostic), the real MakeAdvancedHandler "
              "runs on every diagnostic without panic, kddp's exit status and object file agree with the flag."),
        note=TB + "The ~110 places that assemble ranges from neighbouring tokens are monitored, not proved (partial); handler swaps "
             "(EvaluateSilent, speculative parsing) are not modelled as a state machine.",
        technique="Lean 4 proof about the failure flag and the renderer's indexing, and over the regenerated inventory of hand-built diagnostics (every one has a level) + monitors on the real front end, renderer and kddp exit status",
        ref="§5 C07",
    ),
    "C08": dict(
        text=("Proof (Lean 4) about the store of the L2 evaluator (holders = bindings to a location + path): a write through one holder never "
              "changes what a holder of another location reads (write_other_loc), a root holder reads back what was written, allocation "
              "is fresh and disturbs nobody; storing into a list element changes that element only; a declaration, a value parameter and "
              "a for-each variable are bound to FRESH locations holding copies (decl_fresh, decl_independent, value_param_fresh, "
              "foreach_copies) while a Referenz parameter is bound to exactly the caller's location and path (ref_param_alias), so the "
              "same variable passed twice yields two parameters with one location (ref_twice_same). Tie (T-corr through the real "
              "compiler): a systematic matrix holder type {Text, Zahlen Liste, Text Liste, Kombination, Variable} x copy operation "
              "{initialise, assign, value arg, Referenz arg, same variable twice, Referenz+value, global touched by the callee "
              "(Referenz / value / value read-only), Referenz forwarded, return, store into list, assign to element, element and field "
              "as Referenz, for-each variable, for-each operand reassigned in the body} x mutation, mutating either side and printing "
              "every holder (232 programs), plus random programs with Referenz parameters; compared with the evaluator."),
        note=TB + "Code generator and runtime (deep-copy functions, claim-or-copy of temporaries) are reached by correspondence only. "
             "Lists of lists are outside (C02 findings).",
        technique="Lean 4 proof about the evaluator's store + exhaustive aliasing matrix and random programs through the real compiler",
        ref="§5 C08",
    ),
    "C09": dict(
        text=("Proof (Lean 4) about DDP.Resolve, a transcription of sortAliases and the first-fitting loop of parser.alias: the comparator is a "
              "strict order (irreflexive, asymmetric, transitive, total up to equal keys: before_iff and corollaries), the tried order is "
              "ordered by it for every candidate list (sortC_ordered), and the selected alias fits the argument types while NO fitting "
              "candidate comes before it (select_best) — hence none is longer (select_longest), among the longest none has fewer generic "
              "parameters (select_prefers_nongeneric), among those none has more Referenz parameters (select_prefers_referenz); a call "
              "resolves whenever some matched alias fits (select_some). Ties: (1) the real sortAliases (hook VerifSortAliases) vs the "
              "model's order on thousands of random candidate lists; (2) generated programs with two families of 5-9 functions whose alias "
              "patterns are prefixes of each other / equal with other parameter types / generic / Referenz variants / placeholders in "
              "another order than the parameters, 12 calls each: the function that runs and its parameter values by name are compared "
              "with the model's selection; (3) fixed programs: negated alias, operator overloads chosen by exact operand types with the "
              "built-in meaning otherwise, binding by placeholder name."),
        note=TB + "Matching of tokens to patterns (the trie walk) and the type test are the implementation's; the Python side recomputes "
             "which aliases match and fit. Ties on (length, generic, Referenz) are unspecified and not judged.",
        technique="Lean 4 proof about a transcription of the alias order and selection + correspondence with the real comparator + generated overload programs",
        ref="§5 C09",
    ),
    "C10": dict(
        text=("Proof (Lean 4) about DDP.Modules.visit/initSeq, a transcription of the initialisation walk (only the main module calls "
              "initialisers; at each of its import statements, in source order, the imported module and everything it imports are "
              "visited depth first, imports before the importer, skipping what is already initialised): in every ranked (acyclic) import "
              "graph each module is initialised at most once (init_once), every imported module is initialised (imported_initialised), "
              "the imports of a newly initialised module stand before it in the sequence (imports_first), earlier results are a prefix "
              "of later ones and a later import of an initialised module adds nothing (visit_prefix, later_import_skips); visibility: "
              "only public declarations are ever visible, a whole-module import shows all of them, a by-name import exactly the listed "
              "names (private_never_visible, import_all_is_all_public, import_listed_is_exactly_listed). Tie: generated module DAGs "
              "(2..5 modules, whole and by-name imports in random order) whose initialisers print and depend on the imported globals, "
              "private globals and same-named private declarations in every module, top-level statements that must not run; stdout "
              "compared with the model's sequence; fixed negative programs (private / unlisted / unknown / transitive names, private "
              "field, import cycles of length 1-3) must be rejected with a diagnostic."),
        note=TB + "The model's walk has no in-progress marks (DAGs only); cycles are covered by the negative programs. Name mangling per "
             "module ('distinct objects at run time') is checked by programs only.",
        technique="Lean 4 proof about a transcription of the initialisation walk + generated multi-module programs through the real compiler",
        ref="§5 C10",
    ),
    "C11": dict(
        text=("Proof (Lean 4): the evaluation rules have no optimisation level or link mode (one_behaviour), and the one lowering the code "
              "generator itself changes with the level — passing a constant value parameter without a copy at -O 2 — is unobservable "
              "exactly when no effect of the callee writes through a holder of the argument's location (nocopy_unobservable, by induction "
              "over arbitrary sequences of writes and allocations), with the converse witness aliased_write_seen (the defect that was "
              "found this way and repaired). Tie: every program is compiled under the configurations -O 0/1/2 x {modules linked into one "
              "LLVM module | every module an object of its own} x {list definitions linked in | as object} (quick: 5, thorough: all 12) "
              "and all runs must agree with each other on stdout, stderr and exit status and with the evaluator: aliasing matrix incl. "
              "read-only parameters, operator matrix, random programs, random programs split into two modules."),
        note=TB + "LLVM's optimisation passes and the linker are trusted, not modelled (partial); 'modules kept separate' exists only "
             "behind the verif hook compiler.VerifCompileSeparate because no kddp command line compiles an imported module on its own.",
        technique="Lean 4 proof (non-interference of the store) + differential compilation across all optimisation levels and link modes",
        ref="§5 C11",
    ),
    "C12": dict(
        text=("Proof (Lean 4) over byte-level L1 models of utf8.c, operators.c, ddptypes.c and the compiler's text iteration: for ALL "
              "scalar values except U+0000 (case split on the four encoding ranges, no enumeration) decode∘encode = id, utf8_num_bytes / "
              "indicated_num_bytes = encoding length, utf8_num_bytes_char rejects exactly surrogates and >U+10FFFF; for ALL code-point "
              "sequences: every operation (from_constant, deep_copy, char_to_string, 3 concatenations, replace with shorter/equal/longer "
              "encoding, slice with clamping, index, length, iteration, equality) maps canonical texts (cap = strlen+1 = block size) to "
              "canonical texts and computes the corresponding list operation on code points (refinement), equality never reads outside "
              "a block and decides equality of code-point sequences, hence history independence. Tie: the real C functions (ASan/UBSan "
              "build of the working tree's runtime) driven through a line protocol against the model: all literals of <=3 code points x "
              "all operations x all indices -1..len+2, histories of 2/3 operations, all (thorough) / every 61st (quick) scalar value; "
              "independent code-point monitor on the implementation; one compiled program for iteration/printing at O0-O2."),
        note=TB + "glibc c32rtomb/mbrtoc32 (aliased UTF-8 locale) modelled as encode/decode; U+0000 excluded (NUL-terminated). "
             "Fixed defect e5a451a (shrinking replace).",
        technique="Lean 4 refinement proof (byte-level runtime vs code-point lists) + exhaustive small-domain differential correspondence under ASan",
        ref="§5 C12",
    ),
    "C13": dict(
        text=("Proof (Lean 4) over an L1 model of scanner.go transcribed rune by rune: totality, partition of the source into blank gaps "
              "and token texts, literal = covered text, positions = code-point line/column of the text before (all sources, both modes, "
              "any origin), exactly one EOF, word/number kinds with maximal munch, keyword lookup rule, ASCII spellings over the "
              "regenerated keyword table. Tie: keyword table/token enumeration regenerated from token_types.go on every run; model "
              "executed against scanner.Scan/ScanAlias exhaustively over all concatenations of <=3 (quick) / <=4 (thorough) pieces of a "
              "26-piece lexical-class alphabet plus random lines and all repository .ddp files; independent property monitor on the "
              "implementation's token list. Indentation depth: t tabs at the start of a line add t, 4k+r spaces (r<4) add k (indent_tabs, indent_spaces, by induction for all t, k). Not proved: string/char/comment token languages "
              "are covered by partition+positions but their inner shape is not restated as a grammar."),
        note=TB + "Go's utf8.Valid/DecodeRune and strings.ToLower trusted; the model starts from decoded code points.",
        technique="Lean 4 proof over transcribed scanner model + regenerated keyword table + exhaustive differential correspondence",
        ref="§5 C13",
    ),
    "C14": dict(
        text=("Proof (Lean 4) over an L1 model of ddptypes (GetUnderlying/Equal/TrueUnderlying/DeepEqual/Is*) and of the checker's three "
              "positions (VisitVarDecl, VisitAssignStmt, VisitCastExpr): Equal is an equivalence; aliases are transparent at any depth, "
              "behind further aliases and inside lists (congruence); a definition is equivalent to nothing but (aliases of) itself, never to "
              "its base or to another definition; initialisation = assignment; both accept exactly equivalent types, numeric-for-numeric and "
              "anything-but-nothing for Variable; a definition converts only explicitly and only to/from its base — for all type terms of "
              "any depth. Tie: every exported predicate compared with the model on all ordered pairs of the closure to depth 2 (quick, plus "
              "random depth-3 pairs) / depth 3 (thorough); equivalence laws monitored directly on the implementation's Equal matrix; the "
              "three positions compared through parser.Parse on generated programs for every ordered pair of expressible types. "
              "Not modelled: generic types (C15), operator overloads of `als`."),
        note=TB + "Pointer identity of *TypeDef/*StructType modelled by identity numbers (the harness keeps them consistent).",
        technique="Lean 4 proof by structural induction on type terms + exhaustive pairwise correspondence",
        ref="§5 C14",
    ),
    "C15": dict(
        text=("Proof (Lean 4) about DDP.Generics.unify, a transcription of ddptypes.UnifyGenericType (list peeling with the early break, "
              "bind-or-lookup, one-level unification of the type arguments of a generic Kombination, the quirk that a bound parameter "
              "is re-checked as a Kombination) and of the call-site test of alias.go (`fits`): Equal on type terms is equality (beq_refl, "
              "eq_of_beq, by mutual structural recursion over the nested type), instantiations with equal type arguments are one type and "
              "with different arguments different types (inst_equal_iff, inst_different_struct); a binding once made is never changed by "
              "any later unification (unify_keeps, for all argument/parameter types); one type parameter bound to two different types "
              "makes the call not fit (conflict_rejected, conflict_inst — the latter is the case that panicked before the repair); when "
              "an argument fits a plain type parameter the binding afterwards IS the argument's type (fresh_binds, "
              "fits_var_instantiates). Ties: (1) the real UnifyGenericType vs the model on thousands of generated argument/parameter "
              "sequences with shared bindings; (2) random programs whose functions are made generic in a parameter type — generic "
              "program, its textual specialisation and the L2 evaluator must agree, with the generic function in the same file and in "
              "an imported module; (3) fixed programs for generic Kombinationen (identity of instantiations, ill-typed bindings "
              "rejected). Two defects found and repaired."),
        note=TB + "GetInstantiatedType / instantiation of function bodies is reached by the program correspondence only; generic "
             "Kombinationen are not produced by the random generator.",
        technique="Lean 4 proof about a transcription of the unifier + correspondence with the real unifier + generic-vs-specialisation differential programs",
        ref="§5 C15",
    ),
    "C16": dict(
        text=("Proof (Lean 4) over all permutations a Go map may be iterated in: any two sorted permutations of the same entries are equal "
              "when the comparator is asymmetric and total on the entries (sort_unique — covers map-order and sort instability at once); "
              "the repaired position comparator is a strict total order, so imported declarations get one order (imported_decl_order_unique), "
              "with a kernel-checked witness that the old comparator was not asymmetric; 'deliver the first error' is permutation-invariant "
              "iff at most one entry fails, and always after sorting by a total key (first_error_perm_invariant / _after_sort, witness of the "
              "dependence otherwise); frees of distinct blocks and counting commute; and site_inventory_covered: EVERY order-sensitive site "
              "of the current source — regenerated on every run by a typed go/packages scan (map ranges, maps.Keys/Values, sorts, binary "
              "searches in front end, code generator, linker driver; 32 sites) — is classified, so a new map range breaks the proof. Tie: "
              "T-gen inventory + repetition sweep: crafted inputs with >=2 candidates at each site, repository programs and mutants, each "
              "parsed 64x (thorough 256x) in one process and 4x in several fresh processes; verdict + diagnostic sequence must be identical. "
              "Three defects found this way were repaired. The classification of a site as 'commutes'/'linkArgs' is by reading the code "
              "(not proved per site); runtime orders are sampled."),
        note=TB + "Go's sort.Slice assumed to return a permutation sorted w.r.t. the comparator; linker/LLVM argument order trusted.",
        technique="Lean 4 proof over all permutations + regenerated typed inventory of order-sensitive sites + repetition sweep",
        ref="§5 C16",
    ),
    "C17": dict(
        text=("Proof (Lean 4) about DDP.Duden, the documented meaning of ~40 functions of Duden/Listen, Duden/Texte and Duden/Sortierung as "
              "sequence operations on List Int / lists of code points: append/prepend lengths and ends, insert-then-delete is the "
              "identity and the inserted element stands at its position (einfuegen_loesche, einfuegen_at), delete shortens by one, "
              "mirroring is an involution, sum laws over concatenation, index-of is sound and complete for membership, SORTING is an "
              "ordered permutation (sortiert_sorted, sortiert_perm), trimming is idempotent and leaves no leading separator, padding "
              "lengths, comparison is reflexive and 0 only for equal texts, and JOIN AFTER SPLIT gives the text back "
              "(verbinden_spalte). Tie: for each of ~45 call forms (value and Referenz variants) DDP programs call the real library "
              "on generated in-domain arguments (lengths 0/1/2/3/5, duplicates, negative/large numbers, multi-byte characters), "
              "print the result and the value arguments afterwards; the output is compared with `ddpmodel duden`. Three library "
              "defects found this way were repaired (Trim, Spalte, Text_Index_Von_Text). SECOND PART: all remaining pure functions of "
              "Listen (also for Text, Buchstaben, Kommazahlen and Wahrheitswert lists, through an injective numbering of the elements) "
              "and Texte, all of Zeichen (every class and both case mappings on all ASCII characters and the German letters), the "
              "whole-number and exactly representable functions of Zahlen and Mathe, all of Statistik (Kommazahlen as Rat, judged where "
              "the exact result is a dyadic rational), Tausche: ~300 call forms; further laws: range insertion lengths, descending "
              "lists contain exactly the interval, removing letters, letters of a text concatenate to the text, Levenshtein of equal "
              "texts is 0, splitting at a set gives non-empty parts that concatenate to the filtered text, DECODING THE UTF-8 BYTES OF "
              "A TEXT GIVES THE TEXT (vonBytes_bytes), German letters = capital ∪ small and case mapping round trips, floor bounds, "
              "max/min/clamp of Kommazahlen, factorial divisibility, divisors, highest/lowest, frequencies, modal values. Library "
              "functions that contradict their documentation (8) are listed in C17_FINDINGS.md and are not generated on the failing arguments."),
        note=TB + "Trigonometric/logarithmic functions, Logspace outside whole exponents and results that are not exactly representable are not "
                  "judged; letter classes beyond ASCII and Ä Ö Ü ä ö ü ß are not judged.",
        technique="Lean 4 proof of the laws of the documented sequence operations + differential runs of the real Duden library against them",
        ref="§5 C17",
    ),
    "C18": dict(
        text=("Proof (Lean 4) about DDP.Abi.signature, the calling convention as a function from a DDP signature to a C prototype over the "
              "types published in ddptypes.h: the five primitive types — and only they — travel by value (primitives_by_value, "
              "by_value_iff), Text, lists, Kombinationen and Variable by pointer (nonprimitives_by_pointer), a Referenz parameter is "
              "always a pointer (referenz_is_pointer), a non-primitive result comes back through a LEADING out-pointer with a void C "
              "function and one more C parameter (nonprimitive_result_out_pointer), primitive results by value, parameters keep their "
              "order (parameter_order). Tie: random foreign signatures (1-3 parameters of 10 kinds, value or Referenz, 10 result kinds); "
              "the C prototype is the one the Lean model prints, the C body is written against the published headers only; the "
              "callee prints what it receives, changes what it gets by Referenz, builds the result; the DDP program prints result and "
              "every argument after the call (value arguments unchanged, Referenz arguments changed). Ownership is judged by the heap "
              "ledger of C05 linked into the program (each non-Referenz argument released exactly once by the caller, the result "
              "owned by the caller, nothing live at exit) and by AddressSanitizer. Over facts REGENERATED on every run from "
              "src/compiler (types.NewStruct calls, *_field_index constants, primitive IR types, the truth table of toIrParamType) and "
              "from ddptypes.h (typedefs, structs with field order, ...ref typedefs, static_asserts, constants): every primitive has the "
              "same width and kind on both sides, ddpstring / all 8 list structs / ddpany / the vtable have the same field classes in the "
              "same order and the code generator's field indices select str/cap, arr/len/cap, vtable_ptr/value; sizes 16/24/24; the "
              "regenerated toIrParamType table IS passParam of the model for every type (14 theorems by kernel decide)."),
        note=TB + "The code generator's lowering of extern declarations is reached by correspondence only; field offsets follow from the "
             "platform C ABI (all fields 8-aligned); lists of Kombinationen and Variable results are not generated.",
        technique="Lean 4 proof about the calling-convention function and over regenerated layouts (code generator vs ddptypes.h) + generated C callees and DDP callers run with the heap ledger and sanitizers",
        ref="§5 C18",
    ),
    "C19": dict(
        text=("Proof (Lean 4): the three hand-written escape tables (scanner case list, parseChar, parseString — regenerated from the "
              "source) agree with each other and with the specification's escape map for every character; all images are single bytes (the "
              "fact parseString's in-place splice relies on); whenever the scanner delimits a text literal without diagnostic the parser's "
              "unescaping reports none and yields exactly the denoted text (string_literal_consistent), and a reported escape is never a "
              "literal; round trip for every text of any code points (text_literal_roundtrip) and every character; integer literals: "
              "accepted iff decimal value < 2^63, denote that value, every value writable (digitsOf round trip), min Zahl not writable. "
              "Tie: values stored in the AST by parser.Parse compared with the model for all text literals of <=3/4 symbols and all "
              "character literals of <=3 symbols over a 12-symbol alphabet (quotes, backslash, escape/non-escape letters, newline, 2/3/4-"
              "byte characters), integers around all powers of 2 and 10; rejected literals must be Faulty; a compiled program prints a "
              "sample. PARTIAL: decimal-comma literals are not proved — each tested literal's bits are judged by the decidable "
              "specification isNearestDouble (nearest, ties to even; exact integer arithmetic)."),
        note=TB + "strconv.ParseInt/ParseFloat trusted. Fixed defect: scanner errors did not fail the module (7d23e9d).",
        technique="Lean 4 proof (scanner/parser literal consistency, round trips) + regenerated escape tables + exhaustive short-literal correspondence",
        ref="§5 C19",
    ),
    "C20": dict(
        text=("Proof (Lean 4) over L1 models of ordered_map.go (binary search with eq-hit/less-direction, linear insert), alias_trie/trie.go "
              "(Insert/Contains/Search) and tokenEqual/tokenLess: under the contract Compat(eq,less) the sorted-slice map refines an "
              "association list for every sequence of Sets in every order (omap_refines), the trie refines a pattern->alias map "
              "(trie_refines), a stored alias stays found and every later pointwise-equal declaration is rejected for every declaration "
              "sequence (declared_stays, accepted_is_stored); exact characterisation of when the real predicates satisfy the contract "
              "(token_compat / token_incompat: printed name + list-ness must separate type identities) and a kernel-evaluated witness of "
              "the failure (token_incompat_witness). Tie: model executed against the real alias_trie/ordered_map with the real predicates "
              "(exported under tag verif): all ordered key pairs for the predicates, every permutation of every 4-(quick)/5-(thorough) "
              "subset of placeholder patterns + random pattern sets; program level through parser.Parse with aliases arriving via "
              "imports in permuted orders. Search is proved only through the witness and the correspondence (no general theorem yet)."),
        note=TB + "Known finding: look-alike placeholder types (known_findings.json). Go string comparison abstracted to Nat ranks.",
        technique="Lean 4 refinement proof (sorted map + trie vs association list) + exhaustive permutation correspondence",
        ref="§5 C20",
    ),
}

NOT_YET = {}

# additions of the sixth session (DESIGN 10.8), appended to the texts above
LATER = {
    "C03": " Alias calls nested up to 24 (thorough: 80) deep with a well-formed / faulty / ill-typed / unclosed innermost argument, one and two functions behind the alias: answered within the time limit.",
    "C04": " Redeclaration at the sites that are not block statements (for-each index named like the loop variable, two fields of one name, two parameters of one name) and elements of lists of a wrong element type as arguments for Referenz parameters, each with its well-formed counterpart.",
    "C06": " Every access form also with an index of type Byte (0, 1, n, n+1, 255).",
    "C09": " A third of the value parameters of the generated overload families are declared with an alias of their type.",
    "C16": " One generic function instantiated by 1 / 2 / 4 other modules and by its own with types for which its body resolves to different overloads: eight builds at -O 2 against one at -O 0.",
    "C18": " A foreign call inside the arguments of a foreign call, for nine non-primitive kinds, against the same calls made one after the other (output and ledger).",
    "C02": " Generic Kombinationen / functions of one module instantiated with types their module cannot see (declared by the importer or by a sibling module imported before / after), six uses, modules linked and kept apart: accepted implies compiled.",
    "C05": " Every call / return row of the aliasing matrix (incl. a function returning its own unchanged value parameter, recursion handing a value parameter to the function's own Referenz parameter) runs under the ledger at -O 2 in every tier: at that level parameters judged constant are only borrowed.",
    "C07": " The range monitor also looks at the diagnostics wrapped inside delivered ones (failed generic instantiations); corpus families: an error behind letters of 2-4 bytes on the same line, two errors in one statement at top level and inside blocks (120 programs), errors at every place of a generic body.",
    "C08": " The annotator behind the -O 2 elision (a value parameter flagged constant gets the caller's storage) is modelled (DDP.ConstParam) and its flags are PROVED sound for every module: a flagged parameter is not changed by assignment, through Referenz parameters of any callee (earlier, later, itself, C), or through further hand-overs (theorem sound; old_rule_unsound is the pre-repair defect with its witness); tie: flags of the real annotator on generated modules vs the model. Rows for recursion (a value parameter handed to the function's own Referenz parameter) and for returning an unchanged value parameter (argument local / global / temporary).",
    "C10": " Module paths that differ only in `/` against `_` (pkg/ap/ad.ddp, pkg/ap_ad.ddp) and a module file next to a directory of the same stem occur in the generated graphs.",
    "C12": " For-each loops over a Text whose body assigns the loop variable a letter of another encoded width (32 programs, judged by the L2 evaluator).",
    "C14": " Both list literal forms (`n Mal x`, `eine Liste, die aus … besteht`) are positions of the pair matrix. Behind instantiations of a generic Kombination: declarations (by literal and by default value) are judged separately from the statement under test.",
    "C15": " Effect programs: one generic function over an overloaded callee that reads for one type and changes through a Referenz for another, both instantiation orders, caller local / global, generic text against hand-specialised text at -O 0/1/2.",
    "C19": " Buchstaben literals of every plane (six per plane) printed. List literals of both forms (`n Mal w`, `eine Liste, die aus … besteht`) for nine element values incl. all-zero ones and five lengths, after heap churn, at -O 0/1/2.",
    "C20": " Aliases used by the body of a generic function instantiated elsewhere: helper generic / plain, private / public, declared before / after, pattern extending or prefixing an imported alias, import whole / by name.",
}


def main():
    checks = []
    for pid in sorted(CHECKS):
        c = CHECKS[pid]
        checks.append({
            "property_id": pid,
            "quick_cmd": "./check %s --tier quick" % pid,
            "thorough_cmd": "./check %s --tier thorough" % pid,
            "evidence_file": "evidence/%s.json" % pid,
            "replay_cmd_template": "./check replay {path}",
            "engine": "lean+corr",
            "level_claimed": {"category": "proof", "text": c["text"] + LATER.get(pid, ""), "design_ref": c["ref"]},
            "level_note": c["note"],
            "technique": c["technique"],
        })
    na = []
    for i in range(1, 21):
        pid = "C%02d" % i
        if pid not in CHECKS:
            na.append({"property_id": pid, "reason": NOT_YET.get(pid, "not claimed yet: machinery for this property is not built in this commit (work in progress, see DESIGN.md §9)")})
    m = {
        "version": 1,
        "setup_cmd": "./check setup",
        "hooks": {
            "guard": "verif",
            "enable": "go build -tags 'byollvm verif' (harness: go build -tags verif)",
            "baseline_off_cmd": BASELINE_OFF,
            "source_commits": HOOK_COMMITS,
            "add_only": True,
        },
        "engines": [
            {"name": "lean", "path": "lean/", "serves_properties": sorted(CHECKS), "kind_free_text": "Lean 4 models (DDP/Impl, DDP/Spec), helper lemmas (DDP/Proofs), property theorems (Props/Cxx.lean), core-only model driver ddpmodel"},
            {"name": "translator", "path": "translator/", "serves_properties": sorted(CHECKS), "kind_free_text": "Go go/ast fact extractor writing lean/DDP/Generated/*.lean from /repo's working tree on every run (T-gen)"},
            {"name": "harness", "path": "harness/", "serves_properties": sorted(CHECKS), "kind_free_text": "Go in-process line-protocol driver over the real packages (T-corr, implementation side)"},
            {"name": "pipeline", "path": "vlib/pipeline.py", "serves_properties": sorted(CHECKS), "kind_free_text": "builds kddp+runtime+stdlib from the working tree, compiles and runs DDP programs"},
        ],
        "checks": checks,
        "not_applicable": na,
        "notes": "All checks: ./check <id> --tier quick|thorough; VERIF_SEED honoured; known findings in known_findings.json.",
    }
    with open(os.path.join(VERIF, "MANIFEST.json"), "w") as f:
        json.dump(m, f, indent=1, ensure_ascii=False)
        f.write("\n")


HOOK_COMMITS = ["b62e2a9", "3a96dd6"]

if __name__ == "__main__":
    main()

"""Runs front-end requests in sacrificial harness processes: a panic is answered by the harness, a
fatal error (stack exhaustion, out of memory) or a hang kills the process; unanswered requests are
re-run, the culprit alone with a time and memory limit."""
import json
import os
import resource
import subprocess

from . import pipeline
from .common import CACHE, NPROC
from .corr import run_lines


def _env(ddp):
    env = dict(os.environ)
    env["DDPPATH"] = ddp
    work = os.path.join(CACHE, "work")
    os.makedirs(work, exist_ok=True)
    env["VERIF_WORK"] = work
    return env


def single(harness, line, ddp, timeout=20, mem_gb=8):
    """one request alone, with limits; returns the response dict or {'result': 'crash'|'timeout'}"""
    def limits():
        resource.setrlimit(resource.RLIMIT_AS, (mem_gb << 30, mem_gb << 30))
    try:
        p = subprocess.run([harness], input=(line + "\n").encode(), stdout=subprocess.PIPE, stderr=subprocess.PIPE, env=_env(ddp),
                           timeout=timeout, preexec_fn=limits)
    except subprocess.TimeoutExpired:
        return {"result": "timeout", "diags": [], "faulty": None}
    out = p.stdout.decode("utf-8", "replace").strip()
    try:
        return json.loads(out)
    except Exception:
        return {"result": "crash", "diags": [], "faulty": None, "raw": (p.stderr.decode("utf-8", "replace")[:400] + " … " + p.stderr.decode("utf-8", "replace")[-400:])}


def probe(harness, reqs, ddp=None, chunk_timeout=120, max_failures=12):
    """answers in request order; once max_failures requests have crashed / hung / panicked the remaining unanswered
    ones are answered {'result': 'not-run'} (the check has failed anyway; a hang costs a time-out each)"""
    ddp = ddp or pipeline.build()
    lines = ["parse " + json.dumps(r, ensure_ascii=False).encode("utf-8").hex() for r in reqs]
    res = [None] * len(lines)
    pending = list(range(len(lines)))
    rounds = 0
    failures = 0
    while pending and rounds < 40:
        rounds += 1
        outs = run_lines(harness, [lines[i] for i in pending], timeout=chunk_timeout, env=_env(ddp), chunks=(NPROC if len(pending) >= 64 else 1), mem_gb=4)
        nxt = []
        for i, o in zip(pending, outs):
            if failures >= max_failures and (o.startswith("<crash") or o == "<no-answer>"):
                res[i] = {"result": "not-run", "diags": [], "faulty": None}
            elif o.startswith("<crash"):
                res[i] = single(harness, lines[i], ddp)
                failures += res[i].get("result") not in ("ok", "error")
            elif o == "<no-answer>":
                nxt.append(i)
            else:
                try:
                    res[i] = json.loads(o)
                except Exception:
                    res[i] = single(harness, lines[i], ddp)
        pending = nxt
    for i in pending:
        res[i] = single(harness, lines[i], ddp) if failures < max_failures else {"result": "not-run", "diags": [], "faulty": None}
        failures += res[i].get("result") not in ("ok", "error", "not-run")
    return res

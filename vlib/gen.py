"""Type-directed generator of core-language DDP programs, their pretty printer (full and minimal
parenthesisation, following the call ladder of src/parser/expressions.go) and the s-expression
serialisation that `ddpmodel eval` (lean/DDP/Spec/Sexp.lean) decodes.

AST (python tuples):
  types   'Z' 'K' 'B' 'W' 'C' 'T' 'V' 'N'  ('L', t)  ('S', name)
  exprs   ('int', v) ('float', bits) ('bool', b) ('char', cp) ('text', [cp]) ('var', n)
          ('un', op, e) ('bin', op, a, b) ('ter', op, a, b, c) ('cast', e, t) ('typecheck', e, t)
          ('default', t) ('list', t, [e]) ('listrep', t, c, v) ('call', f, [(p, e)]) ('field', n, e)
          ('struct', N, [(f, e)])
  stmts   ('decl', t, n, e) ('assign', target, e) ('compound', op, target, e) ('if', c, [a], [b])
          ('while', c, [b]) ('dowhile', [b], c) ('repeat', c, [b]) ('for', n, t, f, to, step|None, [b])
          ('foreach', t, n, idx|None, e, [b]) ('break',) ('continue',) ('ret', e|None) ('expr', e)
          ('print', e) ('println', e) ('todo',)
  program dict(structs=[(name, [(fname, ty, default)])], globals=[decl...],
               funcs=[dict(name, params=[(n, ty, isref)], ret, body)], main=[stmt])
"""
import struct as _struct

# ---------------------------------------------------------------- types
PRIM = ["Z", "K", "B", "W", "C", "T"]
NAME = {"Z": "Zahl", "K": "Kommazahl", "B": "Byte", "W": "Wahrheitswert", "C": "Buchstabe", "T": "Text", "V": "Variable"}
GENDER = {"Z": "f", "K": "f", "B": "m", "W": "m", "C": "m", "T": "m", "V": "f"}
LISTNAME = {"Z": "Zahlen Liste", "K": "Kommazahlen Liste", "B": "Byte Liste", "W": "Wahrheitswert Liste",
            "C": "Buchstaben Liste", "T": "Text Liste", "V": "Variablen Liste"}
REFNAME = {"Z": "Zahlen Referenz", "K": "Kommazahlen Referenz", "B": "Byte Referenz", "W": "Wahrheitswert Referenz",
           "C": "Buchstaben Referenz", "T": "Text Referenz", "V": "Variablen Referenz"}


def is_list(t):
    return isinstance(t, tuple) and t[0] == "L"


def is_struct(t):
    return isinstance(t, tuple) and t[0] == "S"


def type_name(t):
    if is_list(t):
        e = t[1]
        return LISTNAME[e] if e in LISTNAME else type_name(e) + " Liste"
    if is_struct(t):
        return t[1]
    return NAME[t]


def ref_name(t):
    if is_list(t):
        return type_name(t) + "n Referenz"
    if is_struct(t):
        return t[1] + " Referenz"
    return REFNAME[t]


def gender(t):
    if is_list(t):
        return "f"
    if is_struct(t):
        return "m"
    return GENDER[t]


def art_nom(t):   # Der / Die
    return {"m": "Der", "f": "Die", "n": "Das"}[gender(t)]


def ein_nom(t):
    return {"m": "ein", "f": "eine", "n": "ein"}[gender(t)]


def ein_akk(t):
    return {"m": "einen", "f": "eine", "n": "ein"}[gender(t)]


def ein_dat(t):
    return {"m": "einem", "f": "einer", "n": "einem"}[gender(t)]


def jede(t):
    return {"m": "jeden", "f": "jede", "n": "jedes"}[gender(t)]


def foreach_type_name(t):
    return "Buchstaben" if t == "C" else type_name(t)


def sx_type(t):
    if is_list(t):
        return "(L %s)" % sx_type(t[1])
    if is_struct(t):
        return "(S %s)" % t[1]
    return t


# ---------------------------------------------------------------- s-expressions
def sx_expr(e):
    k = e[0]
    if k == "int":
        return "(int %d)" % e[1]
    if k == "float":
        return "(float %d)" % e[1]
    if k == "bool":
        return "(bool %d)" % (1 if e[1] else 0)
    if k == "char":
        return "(char %d)" % e[1]
    if k == "text":
        return "(text %s)" % (",".join(str(c) for c in e[1]) if e[1] else "-")
    if k == "var":
        return "(var %s)" % e[1]
    if k == "un":
        return "(un %s %s)" % (e[1], sx_expr(e[2]))
    if k == "bin" and e[1] == "root":
        # `die n. Wurzel von x` is the parser's spelling of x hoch (1 durch n)
        return "(bin pow %s (bin div (int 1) %s))" % (sx_expr(e[3]), sx_expr(e[2]))
    if k == "bin":
        return "(bin %s %s %s)" % (e[1], sx_expr(e[2]), sx_expr(e[3]))
    if k == "ter":
        return "(ter %s %s %s %s)" % (e[1], sx_expr(e[2]), sx_expr(e[3]), sx_expr(e[4]))
    if k == "cast":
        return "(cast %s %s)" % (sx_expr(e[1]), sx_type(e[2]))
    if k == "typecheck":
        return "(typecheck %s %s)" % (sx_expr(e[1]), sx_type(e[2]))
    if k == "default":
        return "(default %s)" % sx_type(e[1])
    if k == "list":
        return "(list %s%s)" % (sx_type(e[1]), "".join(" " + sx_expr(x) for x in e[2]))
    if k == "listrep":
        return "(listrep %s %s %s)" % (sx_type(e[1]), sx_expr(e[2]), sx_expr(e[3]))
    if k == "call":
        return "(call %s%s)" % (e[1], "".join(" (%s %s)" % (p, sx_expr(x)) for p, x in e[2]))
    if k == "field":
        return "(field %s %s)" % (e[1], sx_expr(e[2]))
    if k == "struct":
        return "(struct %s%s)" % (e[1], "".join(" (%s %s)" % (p, sx_expr(x)) for p, x in e[2]))
    raise ValueError(k)


def sx_block(ss):
    return "(" + " ".join(sx_stmt(s) for s in ss) + ")"


def sx_stmt(s):
    k = s[0]
    if k == "decl":
        return "(decl %s %s %s)" % (sx_type(s[1]), s[2], sx_expr(s[3]))
    if k == "assign":
        return "(assign %s %s)" % (sx_expr(s[1]), sx_expr(s[2]))
    if k == "compound":
        return "(compound %s %s %s)" % (s[1], sx_expr(s[2]), sx_expr(s[3]))
    if k == "if":
        return "(if %s %s %s)" % (sx_expr(s[1]), sx_block(s[2]), sx_block(s[3]))
    if k == "while":
        return "(while %s %s)" % (sx_expr(s[1]), sx_block(s[2]))
    if k == "dowhile":
        return "(dowhile %s %s)" % (sx_block(s[1]), sx_expr(s[2]))
    if k == "repeat":
        return "(repeat %s %s)" % (sx_expr(s[1]), sx_block(s[2]))
    if k == "for":
        return "(for %s %s %s %s %s %s)" % (s[1], sx_type(s[2]), sx_expr(s[3]), sx_expr(s[4]),
                                            "-" if s[5] is None else sx_expr(s[5]), sx_block(s[6]))
    if k == "foreach":
        return "(foreach %s %s %s %s %s)" % (sx_type(s[1]), s[2], s[3] or "-", sx_expr(s[4]), sx_block(s[5]))
    if k in ("break", "continue", "todo"):
        return "(%s)" % k
    if k == "ret":
        return "(ret)" if s[1] is None else "(ret %s)" % sx_expr(s[1])
    if k == "expr":
        return "(expr %s)" % sx_expr(s[1])
    if k in ("print", "println"):
        return "(%s %s)" % (k, sx_expr(s[1]))
    raise ValueError(k)


def sx_program(p):
    structs = " ".join("(structdecl %s%s)" % (n, "".join(" (%s %s %s)" % (f, sx_type(t), sx_expr(d)) for f, t, d in fs))
                       for n, fs in p["structs"])
    funcs = " ".join("(func %s (%s) %s %s)" % (
        f["name"], " ".join("(%s %s %d)" % (n, sx_type(t), 1 if r else 0) for n, t, r in f["params"]),
        sx_type(f["ret"]), sx_block(f["body"])) for f in p["funcs"])
    return "(prog (%s) (%s) %s)" % (structs, funcs, sx_block(p["globals"] + p["main"]))


# ---------------------------------------------------------------- pretty printer
# rungs of the ladder (expressions.go); a larger number binds tighter
P_FALLS, P_XOR, P_OR, P_AND, P_LOR, P_LXOR, P_LAND, P_EQ, P_CMP, P_SHIFT, P_TERM, P_FACTOR, P_UNARY, P_NEG, P_POW, \
    P_SLICE, P_INDEX, P_FIELD, P_CAST, P_PRIMARY = range(1, 21)

BIN_INFIX = {   # op -> (rung, keyword)   left associative loops
    "or": (P_OR, "oder"), "and": (P_AND, "und"), "logicOr": (P_LOR, "logisch oder"),
    "logicXor": (P_LXOR, "logisch kontra"), "logicAnd": (P_LAND, "logisch und"),
    "plus": (P_TERM, "plus"), "minus": (P_TERM, "minus"), "concat": (P_TERM, "verkettet mit"),
    "mult": (P_FACTOR, "mal"), "div": (P_FACTOR, "durch"), "mod": (P_FACTOR, "modulo"),
}
CMP_WORD = {"eq": "gleich", "ne": "ungleich", "lt": "kleiner als", "gt": "größer als",
            "le": "kleiner als, oder", "ge": "größer als, oder"}
UN_PREFIX = {"abs": "der Betrag von ", "not": "nicht ", "logicNot": "logisch nicht ", "len": "die Länge von "}
ESC_TEXT = {0x22: '\\"', 0x5C: "\\\\", 0x0A: "\\n", 0x09: "\\t", 0x0D: "\\r"}
ESC_CHAR = {0x27: "\\'", 0x5C: "\\\\", 0x0A: "\\n", 0x09: "\\t", 0x0D: "\\r"}


def float_of_bits(bits):
    return _struct.unpack("<d", _struct.pack("<Q", bits))[0]


def bits_of_float(f):
    return _struct.unpack("<Q", _struct.pack("<d", f))[0]


def float_literal(bits):
    """positional decimal-comma spelling of a non-negative finite double (exact round trip)"""
    f = float_of_bits(bits)
    r = repr(f)
    if "e" in r or "E" in r:
        from decimal import Decimal
        r = format(Decimal(r), "f")
    if "." not in r:
        r += ".0"
    return r.replace(".", ",")


def rung(e, minimal):
    """the rung at which the printed form of `e` starts to be parsed as one operand"""
    k = e[0]
    if k in ("bool", "text", "char", "var", "default", "call", "struct"):
        return P_PRIMARY
    if k == "int":
        return P_PRIMARY if e[1] >= 0 else (P_NEG if e[1] > -(2 ** 63) else 0)
    if k == "float":
        return P_PRIMARY if e[1] < 2 ** 63 else P_NEG
    if k == "list":
        return P_PRIMARY if not e[2] else 0     # `…, die aus a, b besteht` is closed by `besteht`
    if not minimal:
        return 0
    if k == "un":
        return P_NEG if e[1] == "negate" else P_UNARY
    if k == "bin":
        op = e[1]
        if op in BIN_INFIX:
            return BIN_INFIX[op][0]
        if op in ("eq", "ne"):
            return P_EQ
        if op in ("lt", "gt", "le", "ge"):
            return P_CMP
        if op in ("shl", "shr"):
            return P_SHIFT
        if op == "pow":
            return P_POW
        if op == "index":
            return P_INDEX
        if op in ("sliceTo", "sliceFrom"):
            return 0
        if op == "xor":
            return P_XOR
        return 0
    if k == "ter":
        # the alternative of `a, falls c, ansonsten b` is a whole `falls` expression again (theorem falls_shape)
        return {"falls": P_FALLS, "between": P_CMP, "slice": P_SLICE}[e[1]]
    if k == "cast":
        return P_CAST
    if k == "typecheck":
        return P_EQ
    if k == "field":
        return P_FIELD
    return 0


def pp_expr(e, minimal=False, need=0):
    """print `e`; parenthesise when its rung is below `need`"""
    s = _pp(e, minimal)
    return "(" + s + ")" if rung(e, minimal) < need else s


def _arg(e, minimal):
    """an argument of an alias: a single token or a parenthesised expression"""
    if e[0] in ("bool", "text", "char", "var") or (e[0] == "int" and e[1] >= 0) or (e[0] == "float" and e[1] < 2 ** 63):
        return _pp(e, minimal)
    return "(" + _pp(e, minimal) + ")"


def _pp(e, m):
    k = e[0]
    if k == "int":
        v = e[1]
        if v == -(2 ** 63):
            return "-9223372036854775807 minus 1"
        return str(v) if v >= 0 else "-" + str(-v)
    if k == "float":
        b = e[1]
        return float_literal(b) if b < 2 ** 63 else "-" + float_literal(b - 2 ** 63)
    if k == "bool":
        return "wahr" if e[1] else "falsch"
    if k == "char":
        return "'" + ESC_CHAR.get(e[1], chr(e[1])) + "'"
    if k == "text":
        return '"' + "".join(ESC_TEXT.get(c, chr(c)) for c in e[1]) + '"'
    if k == "var":
        return e[1]
    if k == "un":
        if e[1] == "negate":
            return "-" + pp_expr(e[2], m, P_NEG)
        return UN_PREFIX[e[1]] + pp_expr(e[2], m, P_UNARY)
    if k == "bin":
        op, a, b = e[1], e[2], e[3]
        if op in BIN_INFIX:
            r, w = BIN_INFIX[op]
            return "%s %s %s" % (pp_expr(a, m, r), w, pp_expr(b, m, r + 1))
        if op in CMP_WORD:
            # nested comparisons share the closing `ist`; they are always parenthesised
            return "%s %s %s ist" % (pp_expr(a, m, P_SHIFT), CMP_WORD[op], pp_expr(b, m, P_SHIFT))
        if op in ("shl", "shr"):
            return "%s um %s Bit nach %s verschoben" % (pp_expr(a, m, P_SHIFT), pp_expr(b, m, P_TERM),
                                                        "Links" if op == "shl" else "Rechts")
        if op == "xor":
            return "entweder %s, oder %s" % (pp_expr(a, m, P_OR), pp_expr(b, m, P_OR))
        if op == "pow":
            return "%s hoch %s" % (pp_expr(a, m, P_SLICE), pp_expr(b, m, P_UNARY))
        if op == "log":
            return "der Logarithmus von %s zur Basis %s" % (pp_expr(a, m, P_PRIMARY), pp_expr(b, m, P_PRIMARY))
        if op == "root":
            return "die %s. Wurzel von %s" % (pp_expr(a, m, P_PRIMARY), pp_expr(b, m, P_PRIMARY))
        if op == "index":
            return "%s an der Stelle %s" % (pp_expr(a, m, P_INDEX), pp_expr(b, m, P_FIELD))
        if op == "sliceTo":
            return "%s bis zum %s. Element" % (pp_expr(a, m, P_PRIMARY), pp_expr(b, m, P_PRIMARY))
        if op == "sliceFrom":
            return "%s ab dem %s. Element" % (pp_expr(a, m, P_PRIMARY), pp_expr(b, m, P_PRIMARY))
        raise ValueError(op)
    if k == "ter":
        op, a, b, c = e[1], e[2], e[3], e[4]
        if op == "falls":
            return "%s, falls %s, ansonsten %s" % (pp_expr(a, m, P_XOR), pp_expr(b, m, P_XOR), pp_expr(c, m, P_FALLS if m else P_XOR))
        if op == "between":
            return "%s zwischen %s und %s ist" % (pp_expr(a, m, P_SHIFT), pp_expr(b, m, P_SHIFT), pp_expr(c, m, P_SHIFT))
        if op == "slice":
            return "%s im Bereich von %s bis %s" % (pp_expr(a, m, P_INDEX), pp_expr(b, m, P_PRIMARY), pp_expr(c, m, P_PRIMARY))
        raise ValueError(op)
    if k == "cast":
        return "%s als %s" % (pp_expr(e[1], m, P_PRIMARY), type_name(e[2]))
    if k == "typecheck":
        return "%s %s %s ist" % (pp_expr(e[1], m, P_SHIFT), ein_nom(e[2]), type_name(e[2]))
    if k == "default":
        return "der Standardwert von %s %s" % (ein_dat(e[1]), type_name(e[1]))
    if k == "list":
        if not e[2]:
            return "eine leere %s" % type_name(("L", e[1]))
        return "eine Liste, die aus %s besteht" % ", ".join(pp_expr(x, m, P_XOR) for x in e[2])
    if k == "listrep":
        return "%s Mal %s" % (pp_expr(e[2], m, P_PRIMARY), pp_expr(e[3], m, P_PRIMARY))
    if k == "call":
        return " ".join([e[1]] + [_arg(x, m) for _, x in e[2]])
    if k == "struct":
        return " ".join(["mach_" + e[1]] + [_arg(x, m) for _, x in e[2]])
    if k == "field":
        return "%s von %s" % (e[1], pp_expr(e[2], m, P_FIELD))
    raise ValueError(k)


def pp_target(t, m):
    """an assignable (expressions.go `assigneable`): IDENT {von IDENT | von ( assignable )} {an der Stelle unary}"""
    if t[0] == "var":
        return t[1]
    if t[0] == "bin" and t[1] == "index":
        if t[2][0] == "bin":
            raise ValueError("nested index target")
        return "%s an der Stelle %s" % (pp_target(t[2], m), pp_expr(t[3], m, P_UNARY))
    if t[0] == "field":
        inner = pp_target(t[2], m)
        if t[2][0] == "bin":
            inner = "(" + inner + ")"
        return "%s von %s" % (t[1], inner)
    raise ValueError(t)


def pp_rhs(e, t, m):
    """right-hand side of a declaration / assignment of type `t`"""
    if t == "W":
        return "wahr, wenn " + pp_expr(e, m, P_XOR)
    return pp_expr(e, m, P_FALLS if e[0] == "ter" and e[1] == "falls" else P_XOR)


COMPOUND = {"plus": ("Erhöhe", "um"), "minus": ("Verringere", "um"), "mult": ("Vervielfache", "um"), "div": ("Teile", "durch")}


def pp_block(ss, ind, m, types):
    out = []
    for s in ss:
        out.extend(pp_stmt(s, ind, m, types))
    return out


# spelling variants that do not change the meaning (chosen deterministically from the text): one-line bodies, `Wenn aber`
# chains, type aliases for declared types; switched off where a second file would need the alias declarations
_VARIANTS = True
TYPE_ALIASES = {"Z": "Ganzzahl", "K": "Fliesszahl", "T": "Absatz", "W": "Schalter", ("L", "Z"): "Reihung", ("L", "T"): "Absatzfolge"}


def _one_liner(block):
    return len(block) == 1 and block[0][0] in ("assign", "compound", "print", "println", "break", "continue") and \
        len(pp_stmt(block[0], 0, False, {})) == 1


def decl_type_name(t, name):
    """the declared type of a variable, sometimes spelled through a type alias (same gender as the type itself)"""
    if _VARIANTS and t in TYPE_ALIASES and sum(ord(c) for c in name) % 3 == 0:
        _USED_ALIASES.add(t)
        return TYPE_ALIASES[t]
    return type_name(t)


_USED_ALIASES = set()


def pp_stmt(s, ind, m, types):
    """returns the lines of one statement; `types` maps expression-id -> type for W-typed rhs"""
    t = "\t" * ind
    k = s[0]
    if k == "decl":
        if s[3][0] == "listrep":
            return [t + "%s %s %s ist %s." % (art_nom(s[1]), decl_type_name(s[1], s[2]), s[2], _pp(s[3], m))]
        return [t + "%s %s %s ist %s." % (art_nom(s[1]), decl_type_name(s[1], s[2]), s[2], pp_rhs(s[3], s[1], m))]
    if k == "assign":
        return [t + "Speichere %s in %s." % (pp_rhs(s[2], None, m), pp_target(s[1], m))]
    if k == "compound":
        w, prep = COMPOUND[s[1]]
        return [t + "%s %s %s %s." % (w, pp_target(s[2], m), prep, pp_expr(s[3], m, P_XOR))]
    if k == "if":
        cond = pp_expr(s[1], m, P_XOR)
        # a body of one simple statement may follow the comma directly (no `dann:`, no block)
        if _VARIANTS and not s[3] and _one_liner(s[2]) and len(cond) % 3 == 0:
            return [t + "Wenn %s, %s" % (cond, pp_stmt(s[2][0], 0, m, types)[0])]
        lines = [t + "Wenn %s, dann:" % cond] + pp_block(s[2], ind + 1, m, types)
        rest = s[3]
        # an else branch that is a single `Wenn` again is spelled `Wenn aber …` at the same depth
        while _VARIANTS and len(rest) == 1 and rest[0][0] == "if" and len(cond) % 2 == 0:
            lines += [t + "Wenn aber %s, dann:" % pp_expr(rest[0][1], m, P_XOR)] + pp_block(rest[0][2], ind + 1, m, types)
            rest = rest[0][3]
        if rest:
            lines += [t + "Sonst:"] + pp_block(rest, ind + 1, m, types)
        return lines
    if k == "while":
        cond = pp_expr(s[1], m, P_XOR)
        if _VARIANTS and _one_liner(s[2]) and len(cond) % 3 == 0:
            return [t + "Solange %s, %s" % (cond, pp_stmt(s[2][0], 0, m, types)[0])]
        return [t + "Solange %s, mache:" % cond] + pp_block(s[2], ind + 1, m, types)
    if k == "dowhile":
        return [t + "Mache:"] + pp_block(s[1], ind + 1, m, types) + [t + "Solange %s." % pp_expr(s[2], m, P_XOR)]
    if k == "repeat":
        return [t + "Wiederhole:"] + pp_block(s[2], ind + 1, m, types) + [t + "%s Mal." % pp_expr(s[1], m, P_PRIMARY)]
    if k == "for":
        head = "Für %s %s %s von %s bis %s" % (jede(s[2]), type_name(s[2]), s[1], pp_expr(s[3], m, P_PRIMARY), pp_expr(s[4], m, P_PRIMARY))
        if s[5] is not None:
            head += " mit Schrittgröße %s" % pp_expr(s[5], m, P_PRIMARY)
        return [t + head + ", mache:"] + pp_block(s[6], ind + 1, m, types)
    if k == "foreach":
        head = "Für %s %s %s" % (jede(s[1]), foreach_type_name(s[1]), s[2])
        if s[3]:
            head += " mit Index %s" % s[3]
        return [t + head + " in %s, mache:" % pp_expr(s[4], m, P_PRIMARY)] + pp_block(s[5], ind + 1, m, types)
    if k == "break":
        return [t + "Verlasse die Schleife."]
    if k == "continue":
        return [t + "Fahre mit der Schleife fort."]
    if k == "ret":
        if s[1] is None:
            return [t + "Verlasse die Funktion."]
        return [t + "Gib %s zurück." % pp_expr(s[1], m, P_XOR)]
    if k == "expr":
        return [t + _pp(s[1], m) + "."]
    if k == "print":
        return [t + "Schreibe %s." % _arg(s[1], m)]
    if k == "println":
        return [t + "Schreibe %s auf eine Zeile." % _arg(s[1], m)]
    if k == "todo":
        return [t + "..."]
    raise ValueError(k)


def pp_struct(name, fields, m):
    lines = ["Wir nennen die Kombination aus"]
    for f, ty, d in fields:
        art = {"m": "dem", "f": "der", "n": "dem"}[gender(ty)]
        lines.append("\t%s %s %s mit Standardwert %s," % (art, type_name(ty), f, pp_expr(d, m, P_XOR)))
    lines.append("einen %s, und erstellen sie so:" % name)
    lines.append('\t"mach_%s %s"' % (name, " ".join("<%s>" % f for f, _, _ in fields)))
    return lines


def _gname(t, g, ref=False):
    """type name inside the signature of a function that is generic in `g` (written T)"""
    if g is not None and t == g:
        return "T Referenz" if ref else "T"
    if g is not None and is_list(t) and t[1] == g:
        return "T Listen Referenz" if ref else "T Liste"
    return ref_name(t) if ref else type_name(t)


def pp_func(f, m, types):
    ps = f["params"]
    g = f.get("generic")
    head = "Die generische Funktion %s" % f["name"] if g is not None else "Die Funktion %s" % f["name"]
    if ps:
        names = [n for n, _, _ in ps]
        tys = [_gname(t, g, r) for _, t, r in ps]
        if len(ps) == 1:
            head += " mit dem Parameter %s vom Typ %s," % (names[0], tys[0])
        else:
            head += " mit den Parametern %s und %s vom Typ %s und %s," % (", ".join(names[:-1]), names[-1], ", ".join(tys[:-1]), tys[-1])
    if f["ret"] == "N":
        head += " gibt nichts zurück, macht:"
    elif g is not None and f["ret"] == g:
        head += " gibt ein T zurück, macht:"
    else:
        head += " gibt %s %s zurück, macht:" % (ein_akk(f["ret"]), _gname(f["ret"], g))
    if f.get("forward") and g is None:
        # declared here, defined after all declarations (pp_func_definition)
        lines = [head[:-len(" macht:")], "wird später definiert", "und kann so benutzt werden:"]
        lines.append('\t"%s"' % " ".join([f["name"]] + ["<%s>" % n for n, _, _ in ps]))
        return lines
    lines = [head] + pp_block(f["body"], 1, m, types)
    lines.append("Und kann so benutzt werden:")
    lines.append('\t"%s"' % " ".join([f["name"]] + ["<%s>" % n for n, _, _ in ps]))
    return lines


def pp_func_definition(f, m, types):
    """the separate definition of a function that was declared with `wird später definiert`"""
    return ["Die Funktion %s macht:" % f["name"]] + pp_block(f["body"], 1, m, types)


def genericise(p, rng):
    """the same program with some functions made generic in one of their parameter types: the
    original is the monomorphic specialisation (T textually replaced by that type)"""
    r = _R(rng)
    q = dict(p)
    funcs = []
    n = 0
    for f in p["funcs"]:
        f = dict(f)
        cands = []
        for _, t, _ in f["params"]:
            base = t[1] if is_list(t) else t
            if base != "V" and base not in cands and not is_list(base):
                cands.append(base)
        if cands and r.chance(0.8):
            f["generic"] = r.choice(cands)
            n += 1
        funcs.append(f)
    q["funcs"] = funcs
    q["generic_count"] = n
    return q


def _public(lines):
    """marks the declaration starting at lines[0] as public"""
    first = lines[0]
    for art in ("Der ", "Die ", "Das "):
        if first.startswith(art):
            adj = "öffentliche "
            return [art + adj + first[len(art):]] + lines[1:]
    if first.startswith("Wir nennen die Kombination aus"):
        out = [first.replace("die Kombination", "die öffentliche Kombination")]
        for l in lines[1:]:
            if l.startswith("\tder ") or l.startswith("\tdem "):
                l = l[:5] + "öffentlichen " + l[5:]
            out.append(l)
        return out
    return lines


def pp_modules(p, minimal=False, lib="lib"):
    """the same program as two files: Kombinationen, functions and the first `lib_count` globals
    are public declarations of the imported module"""
    types = p.get("types", {})
    k = p.get("lib_count", 0)
    global TYPE_ALIASES
    saved, TYPE_ALIASES = TYPE_ALIASES, {}        # two files: no aliases (each file would need its own declarations)
    try:
        return _pp_modules(p, minimal, lib, types, k)
    finally:
        TYPE_ALIASES = saved


def _pp_modules(p, minimal, lib, types, k):
    lines = ['Binde "Duden/Ausgabe" ein.', ""]
    for n, fs in p["structs"]:
        lines += _public(pp_struct(n, fs, minimal)) + [""]
    for g in p["globals"][:k]:
        lines += _public(pp_stmt(g, 0, minimal, types))
    for f in p["funcs"]:
        lines += [""] + _public(pp_func(f, minimal, types)) + [""]
    for f in p["funcs"]:
        if f.get("forward") and f.get("generic") is None:
            lines += [""] + pp_func_definition(f, minimal, types) + [""]
    main = ['Binde "Duden/Ausgabe" ein.', 'Binde "%s" ein.' % lib, ""]
    main += pp_block(p["globals"][k:], 0, minimal, types)
    main += pp_block(p["main"], 0, minimal, types)
    return {lib + ".ddp": "\n".join(lines) + "\n", "main.ddp": "\n".join(main) + "\n"}


def pp_program(p, minimal=False, types=None):
    types = types or p.get("types", {})
    _USED_ALIASES.clear()
    body = []
    for n, fs in p["structs"]:
        body += pp_struct(n, fs, minimal) + [""]
    body += pp_block(p["globals"], 0, minimal, types)
    lines = ['Binde "Duden/Ausgabe" ein.', ""]
    tail = _pp_program_rest(p, minimal, types)
    for t in sorted(_USED_ALIASES, key=str):
        lines.append("Wir nennen %s %s auch %s %s." % (ein_akk(t), type_name(t), ein_akk(t), TYPE_ALIASES[t]))
    return "\n".join(lines + body + tail) + "\n"


def _pp_program_rest(p, minimal, types):
    lines = []
    for f in p["funcs"]:
        lines += [""] + pp_func(f, minimal, types) + [""]
    for f in p["funcs"]:
        if f.get("forward") and f.get("generic") is None:
            lines += [""] + pp_func_definition(f, minimal, types) + [""]
    lines += pp_block(p["main"], 0, minimal, types)
    return lines


# ---------------------------------------------------------------- generator
INT_POOL = [0, 1, -1, 2, 3, 7, 10, -10, 100, 127, 128, 255, 256, 1000, 65535, 2 ** 31 - 1, 2 ** 31, -(2 ** 31), 2 ** 32,
            2 ** 53, 2 ** 53 + 1, 2 ** 62, 2 ** 63 - 1, -(2 ** 63) + 1, -(2 ** 63), 123456789, -987654321]
FLOAT_POOL = [0.0, 1.0, 0.5, 1.5, 2.5, 0.1, 0.2, 0.3, 3.14, 100.0, 1e6, 0.001, 255.0, 256.0, 2.0 ** 31, 2.0 ** 53, 1e15, 1e16,
              123456.789, 0.000123, 7.0, 9.99, 1e-5, 1e-4, 1e17, 12345678901234567.0, 0.3333333333333333, 2.718281828459045]
CHAR_POOL = [0x61, 0x7A, 0x41, 0x30, 0x39, 0x20, 0xE4, 0xDF, 0x20AC, 0x1F600, 0x78, 0x21, 0x4E2D]
TEXT_POOL = ["", "a", "abc", "Hallo", "äöü", "x€y", "12", "-45", "  7", "a😀b", "Welt!", "zzz", "0", "ß"]


class _R:
    """adapter over vlib.common.Rng with probabilities as floats"""

    def __init__(self, rng):
        self.g = rng

    def below(self, n):
        return self.g.below(n)

    def choice(self, xs):
        return xs[self.g.below(len(xs))]

    def chance(self, p):
        return self.g.below(1000) < int(p * 1000)

    def shuffle(self, xs):
        return self.g.shuffle(xs)


class Scope:
    def __init__(self):
        self.vars = []      # (name, type, assignable)


class Gen:
    """`weights` switches features; every random choice comes from `rng` (vlib.common.Rng)"""

    def __init__(self, rng, feats=None, max_depth=3):
        self.r = _R(rng)
        self.max_depth = max_depth
        self.feats = feats or {}
        self.n = 0
        self.structs = []       # (name, fields)
        self.funcs = []
        self.scopes = [Scope()]
        self.types = {}         # id(assign stmt) -> target type
        self.loop = 0
        self.in_func = None
        self.has_undefined_guard = True

    # ---- helpers
    def feat(self, name, default=True):
        return self.feats.get(name, default)

    def fresh(self, prefix):
        self.n += 1
        return "%s%d" % (prefix, self.n)

    def vars_of(self, t, assignable=False):
        out = []
        for sc in self.scopes:
            for n, ty, a in sc.vars:
                if ty == t and (a or not assignable):
                    out.append(n)
        return out

    def all_vars(self):
        return [(n, ty, a) for sc in self.scopes for n, ty, a in sc.vars]

    def bind(self, n, t, assignable=True):
        self.scopes[-1].vars.append((n, t, assignable))

    def push(self):
        self.scopes.append(Scope())

    def pop(self):
        self.scopes.pop()

    def value_types(self):
        ts = list(PRIM) + [("L", p) for p in PRIM]
        if self.feat("structs"):
            ts += [("S", n) for n, _ in self.structs]
            ts += [("L", ("S", n)) for n, _ in self.structs[:1]]
        if self.feat("variable"):
            ts.append("V")
        return ts

    def pick_type(self, scalar_bias=0.6):
        if self.r.chance(scalar_bias):
            return self.r.choice(PRIM)
        return self.r.choice(self.value_types())

    # ---- literals
    def lit(self, t):
        r = self.r
        if t == "Z":
            return ("int", r.choice(INT_POOL) if r.chance(0.5) else r.below(21) - 5)
        if t == "K":
            f = r.choice(FLOAT_POOL)
            b = bits_of_float(f)
            return ("float", b + 2 ** 63 if r.chance(0.25) and f != 0.0 else b)
        if t == "B":
            return ("cast", ("int", r.choice([0, 1, 2, 7, 100, 127, 128, 200, 254, 255])), "B")
        if t == "W":
            return ("bool", r.chance(0.5))
        if t == "C":
            return ("char", r.choice(CHAR_POOL))
        if t == "T":
            return ("text", [ord(c) for c in r.choice(TEXT_POOL)])
        if t == "V":
            return ("cast", self.lit(r.choice(["Z", "T", "W", "K"])), "V")
        if is_list(t):
            n = r.below(5) if r.chance(0.3) else r.below(3) + 2
            if n == 0:
                return ("list", t[1], [])
            return ("list", t[1], [self.lit(t[1]) for _ in range(n)])
        if is_struct(t):
            fields = dict(self.structs)[t[1]]
            return ("struct", t[1], [(f, self.lit(ft)) for f, ft, _ in fields])
        raise ValueError(t)

    def small_index(self):
        return ("int", 1 if self.r.chance(0.8) else self.r.choice([1, 2, 2, 3, 4, 0, -1, 5]))

    # ---- expressions
    def expr(self, t, d=None):
        d = self.max_depth if d is None else d
        r = self.r
        if d <= 0 or r.chance(0.15):
            return self.leaf(t)
        opts = getattr(self, "_gen_" + (t if isinstance(t, str) else t[0]))(t, d)
        return opts

    def leaf(self, t):
        vs = self.vars_of(t)
        if vs and self.r.chance(0.6):
            return ("var", self.r.choice(vs))
        if is_struct(t) and vs:
            return ("var", self.r.choice(vs))
        return self.lit(t)

    def num(self, d, kinds="ZKB"):
        return self.expr(self.r.choice(list(kinds)), d)

    def common(self, t, d):
        """forms available for every type: falls, call, field access, indexing a list of t, cast from Variable"""
        r = self.r
        c = r.below(10)
        if c == 0:
            return ("ter", "falls", self.expr(t, d - 1), self.expr("W", d - 1), self.expr(t, d - 1))
        if c == 1:
            fs = [f for f in self.funcs if f["ret"] == t and f is not self.in_func]
            if fs:
                return self.call(r.choice(fs), d - 1)
        if c == 2 and self.feat("structs"):
            for n, ty, _ in r.shuffle(self.all_vars()):
                if is_struct(ty):
                    fl = [f for f, ft, _ in dict(self.structs)[ty[1]] if ft == t]
                    if fl:
                        return ("field", r.choice(fl), ("var", n))
        if c == 3 and not is_list(t) and t != "V":
            return ("bin", "index", self.expr(("L", t), d - 1), self.small_index())
        if c == 5 and self.feat("structs") and d >= 2:
            # a field of a computed (temporary) Kombination: literal, call result, conditional, list element
            for sn, fields in r.shuffle(list(self.structs)):
                fl = [f for f, ft, _ in fields if ft == t]
                if fl:
                    e = self._gen_S(("S", sn), d - 1)
                    return ("field", r.choice(fl), e)
        if c == 4 and self.feat("variable") and t != "V":
            vs = self.vars_of("V")
            if vs:
                return ("cast", ("var", r.choice(vs)), t)
        return None

    def call(self, f, d):
        args = []
        for n, ty, ref in f["params"]:
            if ref:
                tg = self.target(ty, text_index=False)
                if tg is None:
                    return self.leaf(f["ret"]) if f["ret"] != "N" else None
                args.append((n, tg))
            else:
                args.append((n, self.expr(ty, min(d, 1))))
        return ("call", f["name"], args)

    def target(self, t, d=1, text_index=True):
        """an assignable expression of type t (variable, list element, field)"""
        r = self.r
        c = r.below(6)
        if c == 0 and not is_list(t) and t != "V":
            ls = self.vars_of(("L", t), True)
            if ls:
                return ("bin", "index", ("var", r.choice(ls)), self.small_index())
        if c == 1 and self.feat("structs"):
            for n, ty, a in r.shuffle(self.all_vars()):
                if a and is_struct(ty):
                    fl = [f for f, ft, _ in dict(self.structs)[ty[1]] if ft == t]
                    if fl:
                        return ("field", r.choice(fl), ("var", n))
        if c == 2 and t == "C" and text_index and self.feat("text_index_assign"):
            ts = self.vars_of("T", True)
            if ts:
                return ("bin", "index", ("var", r.choice(ts)), self.small_index())
        vs = self.vars_of(t, True)
        if vs:
            return ("var", r.choice(vs))
        return None

    def _gen_Z(self, t, d):
        r = self.r
        e = self.common(t, d)
        if e:
            return e
        c = r.below(16)
        if c == 0:
            return ("un", r.choice(["abs", "negate"]), self.expr(r.choice(["Z", "B"]), d - 1))
        if c == 1:
            return ("un", "logicNot", self.expr("Z", d - 1))
        if c == 2:
            return ("un", "len", self.expr(r.choice(["T", ("L", r.choice(PRIM))]), d - 1))
        if c in (3, 4, 5, 6):
            a, b = r.choice([("Z", "Z"), ("Z", "Z"), ("Z", "B"), ("B", "Z")])
            return ("bin", r.choice(["plus", "minus", "mult"]), self.expr(a, d - 1), self.expr(b, d - 1))
        if c == 7:
            a, b = r.choice([("Z", "Z"), ("Z", "B"), ("B", "Z")])
            rhs = ("int", r.choice([1, 2, 3, 7, 10, -3, 256, 2 ** 31])) if b == "Z" else ("cast", ("int", r.choice([1, 2, 3, 7, 100, 255])), "B")
            return ("bin", "mod", self.expr(a, d - 1), rhs)
        if c == 8:
            a, b = r.choice([("Z", "Z"), ("Z", "B"), ("B", "Z")])
            return ("bin", r.choice(["logicAnd", "logicOr", "logicXor"]), self.expr(a, d - 1), self.expr(b, d - 1))
        if c == 9:
            amt = ("int", r.choice([0, 1, 2, 7, 8, 31, 32, 62, 63]))
            if r.chance(0.3):
                amt = ("cast", ("int", r.choice([0, 1, 5, 63])), "B")
            return ("bin", r.choice(["shl", "shr"]), self.expr("Z", d - 1), amt)
        if c == 10:
            src = r.choice(["B", "W", "C", "T", "K"])
            if src == "K":
                return ("cast", ("float", bits_of_float(r.choice([0.0, 1.5, 2.5, -2.5, 3.99, -3.99, 1e15, 255.9, -0.5]))), "Z") \
                    if False else ("cast", self.lit_k_small(), "Z")
            if src == "T":
                return ("cast", ("text", [ord(ch) for ch in r.choice(["12", "-45", "  7", "0", "99x", "x", "", "+3", "9223372036854775807", "99999999999999999999"])]), "Z")
            return ("cast", self.expr(src, d - 1), "Z")
        return ("bin", r.choice(["plus", "minus", "mult"]), self.expr("Z", d - 1), self.expr("Z", d - 1))

    def lit_k_small(self):
        f = self.r.choice([0.0, 1.5, 2.5, -2.5, 3.99, -3.99, 1e15, 255.9, -0.5, 0.999, 1e18, -1e18])
        return ("float", bits_of_float(f)) if f >= 0 and str(f)[0] != "-" else ("float", bits_of_float(-f) + 2 ** 63)

    def _gen_K(self, t, d):
        r = self.r
        e = self.common(t, d)
        if e:
            return e
        c = r.below(10)
        if c == 0:
            return ("un", r.choice(["abs", "negate"]), self.expr("K", d - 1))
        if c in (1, 2, 3):
            a, b = r.choice([("K", "K"), ("K", "Z"), ("Z", "K"), ("K", "B"), ("B", "K")])
            return ("bin", r.choice(["plus", "minus", "mult"]), self.expr(a, d - 1), self.expr(b, d - 1))
        if c in (4, 5, 6):
            return ("bin", "div", self.num(d - 1), self.num(d - 1))
        if c == 7 and self.feat("pow"):
            if r.below(3) == 0:
                return ("bin", "root", ("int", r.choice([1, 2, 3])), ("un", "abs", self.expr(r.choice(["Z", "K"]), 0)))
            return ("bin", "pow", self.expr(r.choice(["Z", "K", "B"]), 0), ("int", r.choice([0, 1, 2, 3, -1])))
        if c == 8:
            return ("cast", self.expr(r.choice(["Z", "B"]), d - 1), "K")
        return ("bin", r.choice(["plus", "minus", "mult"]), self.expr("K", d - 1), self.num(d - 1))

    def _gen_B(self, t, d):
        r = self.r
        e = self.common(t, d)
        if e:
            return e
        c = r.below(9)
        if c in (0, 1):
            return ("bin", r.choice(["plus", "minus", "mult"]), self.expr("B", d - 1), self.expr("B", d - 1))
        if c == 2:
            return ("bin", r.choice(["logicAnd", "logicOr", "logicXor"]), self.expr("B", d - 1), self.expr("B", d - 1))
        if c == 3:
            return ("un", "logicNot", self.expr("B", d - 1))
        if c == 4:
            return ("bin", "mod", self.expr("B", d - 1), ("cast", ("int", r.choice([1, 2, 3, 7, 100, 255])), "B"))
        if c == 5:
            amt = ("int", r.choice([0, 1, 2, 7])) if r.chance(0.5) else ("cast", ("int", r.choice([0, 1, 3, 7])), "B")
            return ("bin", r.choice(["shl", "shr"]), self.expr("B", d - 1), amt)
        if c == 6:
            return ("cast", self.expr("Z", d - 1), "B")
        return ("cast", self.expr("Z", d - 1), "B")

    def _gen_W(self, t, d):
        r = self.r
        e = self.common(t, d)
        if e:
            return e
        c = r.below(12)
        if c == 0:
            return ("un", "not", self.expr("W", d - 1))
        if c in (1, 2):
            return ("bin", r.choice(["and", "or"]), self.expr("W", d - 1), self.expr("W", d - 1))
        if c == 3:
            return ("bin", "xor", self.expr("W", d - 1), self.expr("W", d - 1))
        if c in (4, 5):
            ty = self.pick_type(0.5)
            if ty == "V" or (is_list(ty) and is_struct(ty[1])):
                ty = "Z"
            return ("bin", r.choice(["eq", "ne"]), self.expr(ty, d - 1), self.expr(ty, d - 1))
        if c in (6, 7, 8):
            return ("bin", r.choice(["lt", "gt", "le", "ge"]), self.num(d - 1), self.num(d - 1))
        if c == 9:
            return ("ter", "between", self.num(d - 1), self.num(d - 1), self.num(d - 1))
        if c == 10 and self.feat("variable"):
            vs = self.vars_of("V")
            if vs:
                return ("typecheck", ("var", r.choice(vs)), r.choice(["Z", "T", "W", "K", ("L", "Z")]))
        return ("bin", r.choice(["lt", "gt", "le", "ge"]), self.expr("Z", d - 1), self.expr("Z", d - 1))

    def _gen_C(self, t, d):
        r = self.r
        e = self.common(t, d)
        if e:
            return e
        c = r.below(4)
        if c == 0:
            return ("bin", "index", self.expr("T", d - 1), self.small_index())
        if c == 1:
            return ("cast", ("int", r.choice([65, 97, 228, 8364, 128512, 48])), "C")
        if c == 2:
            return ("cast", ("cast", ("int", r.choice([65, 97, 122, 48, 33])), "B"), "C")
        return self.leaf("C")

    def _gen_T(self, t, d):
        r = self.r
        e = self.common(t, d)
        if e:
            return e
        c = r.below(10)
        if c in (0, 1, 2):
            a, b = r.choice([("T", "T"), ("T", "T"), ("T", "C"), ("C", "T"), ("C", "C")])
            if (a, b) == ("C", "C"):
                # two Buchstaben concatenate to a Buchstaben Liste, not a Text
                a = "T"
            return ("bin", "concat", self.expr(a, d - 1), self.expr(b, d - 1))
        if c == 3:
            return ("ter", "slice", self.expr("T", d - 1), self.small_index(), self.small_index())
        if c == 4:
            return ("bin", r.choice(["sliceTo", "sliceFrom"]), self.expr("T", d - 1), self.small_index())
        if c in (5, 6):
            return ("cast", self.expr(r.choice(["Z", "K", "B", "W", "C"]), d - 1), "T")
        return self.leaf("T")

    def _gen_V(self, t, d):
        return self.leaf("V")

    def _gen_L(self, t, d):
        r = self.r
        e = self.common(t, d)
        if e:
            return e
        el = t[1]
        c = r.below(8)
        if c in (0, 1) and not is_struct(el):
            a, b = r.choice([(t, t), (t, el), (el, t), (el, el)])
            if (a, b) == (el, el) and el == "T":
                a = t       # two Texte concatenate to a Text
            return ("bin", "concat", self.expr(a, d - 1), self.expr(b, d - 1))
        if c == 2:
            return ("ter", "slice", self.expr(t, d - 1), self.small_index(), self.small_index())
        if c == 3:
            return ("bin", r.choice(["sliceTo", "sliceFrom"]), self.expr(t, d - 1), self.small_index())
        if c == 4:
            n = r.below(4) + 1
            return ("list", el, [self.expr(el, d - 1) for _ in range(n)])
        return self.leaf(t)

    def _gen_S(self, t, d):
        r = self.r
        e = self.common(t, d)
        if e:
            return e
        fields = dict(self.structs)[t[1]]
        if r.chance(0.5):
            return ("struct", t[1], [(f, self.expr(ft, d - 1)) for f, ft, _ in fields])
        return self.leaf(t)

    # ---- statements
    def decl(self, t=None, d=None):
        t = t or self.pick_type()
        n = self.fresh("v")
        if is_list(t) and not is_struct(t[1]) and self.r.chance(0.15):
            cnt = ("int", self.r.choice([0, 1, 2, 3]))
            if self.r.chance(0.25):
                cnt = ("cast", cnt, "B")
            e = ("listrep", t[1], cnt, self.leaf(t[1]))
        else:
            e = self.expr(t, d)
            if t == "V" and self.r.chance(0.6):
                # any value but 'nothing' initialises a Variable
                e = self.expr(self.r.choice(["Z", "T", "W", "K", ("L", "Z")]), d)
            if t in ("Z", "K", "B") and self.r.chance(0.2):
                # numeric initialisers convert
                e = self.expr(self.r.choice(["Z", "B"] if t != "B" else ["Z"]), d)
        s = ("decl", t, n, e)
        self.bind(n, t)
        return s

    def dump(self, n, t, depth=0):
        """statements printing the whole content of variable `n`"""
        v = ("var", n) if isinstance(n, str) else n
        if t in PRIM:
            return [("print", v), ("print", ("text", [0x7C]))]
        if is_list(t):
            x = self.fresh("e")
            inner = self.dump(x, t[1], depth + 1)
            return [("print", ("text", [0x5B])), ("foreach", t[1], x, None, v, inner), ("print", ("text", [0x5D]))]
        if is_struct(t):
            out = [("print", ("text", [0x7B]))]
            for f, ft, _ in dict(self.structs)[t[1]]:
                if is_list(ft) or is_struct(ft):
                    x = self.fresh("e")
                    out.append(("decl", ft, x, ("field", f, v)))
                    out += self.dump(x, ft, depth + 1)
                else:
                    out += [("print", ("field", f, v)), ("print", ("text", [0x7C]))]
            return out + [("print", ("text", [0x7D]))]
        if t == "V":
            out = []
            for ct in ["Z", "T", "W", "K"]:
                out.append(("if", ("typecheck", v, ct), [("print", ("cast", v, ct)), ("print", ("text", [0x7C]))], []))
            return out
        return []

    def block(self, n, d):
        self.push()
        out = []
        for _ in range(n):
            out += self.stmt(d)
        self.pop()
        return out

    def stmt(self, d):
        r = self.r
        c = r.below(20)
        if d <= 0:
            c = r.below(9)
        if c in (0, 1, 2):
            return [self.decl()]
        if c in (3, 4, 5):
            vs = [(n, t) for n, t, a in self.all_vars() if a]
            if not vs:
                return [self.decl()]
            n, t = r.choice(vs)
            tg = self.target(t) or ("var", n)
            if tg[0] == "var":
                t = dict((a, b) for a, b, _ in self.all_vars())[tg[1]]
            src = self.expr(t, 2)
            if t in ("Z", "K") and r.chance(0.2):
                src = self.expr(r.choice(["Z", "B", "K"]) if t == "K" else r.choice(["Z", "B"]), 2)
            if t == "V" and r.chance(0.6):
                src = self.expr(r.choice(["Z", "T", "W", "K", ("L", "Z")]), 2)
            s = ("assign", tg, src)
            self.types[id(s)] = t
            return [s]
        if c == 6:
            vs = self.vars_of("Z", True) + self.vars_of("K", True)
            if not vs:
                return [self.decl("Z")]
            n = r.choice(vs)
            t = "Z" if n in self.vars_of("Z", True) else "K"
            op = r.choice(["plus", "minus", "mult"] + (["div"] if t == "K" else []))
            return [("compound", op, ("var", n), self.expr(t, 1))]
        if c in (7, 8):
            vs = self.all_vars()
            if not vs:
                return [self.decl()]
            n, t, _ = r.choice(vs)
            return self.dump(n, t) + [("println", ("text", []))]
        if c in (9, 10):
            els = self.block(r.below(3), d - 1) if r.chance(0.5) else []
            if r.chance(0.25):
                # a chain: the else branch is one `Wenn` again (spelled `Wenn aber`), possibly with a last `Sonst`
                els = [("if", self.expr("W", 1), self.block(r.below(2) + 1, d - 1), self.block(r.below(2), d - 1) if r.chance(0.5) else [])]
            return [("if", self.expr("W", 2), self.block(r.below(3) + 1, d - 1), els)]
        if c == 11:
            # a bounded while loop: the counter is advanced first, so `continue` cannot starve it
            i = self.fresh("i")
            lim = r.below(5)
            self.loop += 1
            body = self.block(r.below(3) + 1, d - 1)
            self.loop -= 1
            cond = ("bin", "lt", ("var", i), ("int", lim))
            if r.chance(0.3):
                cond = ("bin", "and", cond, self.expr("W", 1))
            inc = ("compound", "plus", ("var", i), ("int", 1))
            if r.chance(0.3):
                return [("decl", "Z", i, ("int", 0)), ("dowhile", [inc] + body, cond)]
            return [("decl", "Z", i, ("int", 0)), ("while", cond, [inc] + body)]
        if c == 12:
            self.loop += 1
            body = self.block(r.below(3) + 1, d - 1)
            self.loop -= 1
            cnt = ("int", r.choice([0, 1, 2, 3]))
            if r.chance(0.25):
                cnt = ("cast", cnt, "B")        # the count may be a Byte
            return [("repeat", cnt, body)]
        if c in (13, 14):
            t = r.choice(["Z", "Z", "Z", "K", "B"]) if self.feat("for_types") else "Z"
            n = self.fresh("j")
            if t == "Z":
                a, b = ("int", r.below(7) - 2), ("int", r.below(9) - 2)
                step = None if r.chance(0.4) else ("int", r.choice([1, 2, 3, -1, -2]))
                if r.chance(0.15):
                    a, b, step = ("int", 2 ** 63 - 3), ("int", 2 ** 63 - 1), None
                    return []   # counter overflow wraps around: would not terminate in a bounded run
            elif t == "K":
                a, b = ("float", bits_of_float(r.choice([0.0, 0.5, 1.0]))), ("float", bits_of_float(r.choice([1.0, 2.5, 3.0])))
                step = None if r.chance(0.4) else ("float", bits_of_float(r.choice([0.5, 0.25, 1.0])))
            else:
                a, b = ("int", r.below(4)), ("int", r.below(6))
                step = None
            if self.feat("for_types") and r.chance(0.35):
                # end value and step size of another numeric type than the counter: compared / added in the counter's type
                if t in ("Z", "B"):
                    b = ("float", bits_of_float(r.choice([0.5, 1.5, 2.5, 3.0, 4.75])) + (2 ** 63 if t == "Z" and r.chance(0.3) else 0))
                    if t == "Z" and r.chance(0.5):
                        step = ("float", bits_of_float(r.choice([1.0, 1.5, 2.25])))
                    elif t == "Z" and r.chance(0.3):
                        step = ("cast", ("int", r.choice([1, 2])), "B")
                else:
                    b = r.choice([("int", r.below(4)), ("cast", ("int", r.below(4)), "B")])
                    if r.chance(0.5):
                        step = r.choice([("int", 1), ("cast", ("int", 1), "B"), ("int", 2)])
            self.push()
            self.bind(n, t, False)
            self.loop += 1
            body = self.block(r.below(3) + 1, d - 1)
            self.loop -= 1
            self.pop()
            return [("for", n, t, a, b, step, body)]
        if c in (15, 16):
            lt = r.choice([("L", p) for p in PRIM] + ["T"])
            el = "C" if lt == "T" else lt[1]
            n = self.fresh("x")
            idx = self.fresh("k") if r.chance(0.4) else None
            it = self.expr(lt, 1)
            self.push()
            self.bind(n, el, True)
            if idx:
                self.bind(idx, "Z", False)
            self.loop += 1
            body = self.block(r.below(3) + 1, d - 1)
            self.loop -= 1
            self.pop()
            return [("foreach", el, n, idx, it, body)]
        if c == 17 and self.loop > 0:
            return [("if", self.expr("W", 1), [(r.choice(["break", "continue"]),)], [])]
        if c == 18:
            fs = [f for f in self.funcs if f is not self.in_func]
            if fs:
                f = r.choice(fs)
                e = self.call(f, 2)
                if e and e[0] == "call":
                    if f["ret"] == "N" or r.chance(0.3):
                        return [("expr", e)]
                    n = self.fresh("v")
                    self.bind(n, f["ret"])
                    return [("decl", f["ret"], n, e)]
        if c == 19 and self.in_func is not None and r.chance(0.5):
            f = self.in_func
            cond = self.expr("W", 1)
            return [("if", cond, [("ret", None if f["ret"] == "N" else self.expr(f["ret"], 2))], [])]
        return [self.decl()]

    # ---- program
    def struct_decl(self):
        name = self.fresh("Kombi")
        nf = self.r.below(3) + 1
        fields = []
        avail = list(PRIM) + [("L", "Z"), ("L", "T")] + [("S", n) for n, _ in self.structs]
        for _ in range(nf):
            ft = self.r.choice(avail)
            fields.append((self.fresh("f"), ft, self.lit(ft)))
        self.structs.append((name, fields))

    def func_decl(self):
        name = self.fresh("fn")
        np = self.r.below(3) + 1
        params = []
        for _ in range(np):
            params.append((self.fresh("p"), self.pick_type(0.5), self.r.chance(0.35) and self.feat("refs")))
        ret = "N" if self.r.chance(0.25) else self.pick_type(0.5)
        f = dict(name=name, params=params, ret=ret, body=[])
        if self.feat("forward_decls") and self.r.chance(0.25):
            f["forward"] = True
        saved = self.scopes
        self.scopes = [saved[0], Scope()]
        for n, t, ref in params:
            self.bind(n, t, True)
        self.in_func = f
        saved_loop, self.loop = self.loop, 0
        body = []
        for _ in range(self.r.below(4) + 1):
            body += self.stmt(2)
        if ret != "N":
            body.append(("ret", self.expr(ret, 2)))
        f["body"] = body
        self.in_func = None
        self.loop = saved_loop
        self.scopes = saved
        self.funcs.append(f)

    def program(self, nstmts=8):
        r = self.r
        if self.feat("structs"):
            for _ in range(r.below(3)):
                self.struct_decl()
        globals_ = []
        lib_count = 0
        if self.feat("modules", False):
            # the first globals live in the imported module; functions see only those
            for _ in range(r.below(3)):
                globals_.append(self.decl(d=1))
            lib_count = len(globals_)
            if self.feat("funcs"):
                for _ in range(r.below(4) + 1):
                    self.func_decl()
        for _ in range(r.below(4) + 2):
            globals_.append(self.decl(d=1))
        if self.feat("funcs") and not self.feat("modules", False):
            for _ in range(r.below(4)):
                self.func_decl()
        main = []
        for _ in range(nstmts):
            main += self.stmt(self.max_depth)
        # final dump of every global and main-level variable
        for n, t, _ in list(self.scopes[0].vars):
            main += self.dump(n, t)
        main.append(("println", ("text", [])))
        return dict(structs=self.structs, globals=globals_, funcs=self.funcs, main=main, types=self.types, lib_count=lib_count)

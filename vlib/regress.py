"""Runs the repository's own compiled-program tests (tests/testdata/{kddp,stdlib}) through the
pipeline; used to validate `fix:` commits to the code generator and runtime (those tests need a
built kddp and are not part of the pinned 38-test suite)."""
import os
import sys

from . import pipeline
from .common import REPO


def collect():
    out = []
    for group in ("kddp", "stdlib"):
        root = os.path.join(REPO, "tests", "testdata", group)
        for d in sorted(os.listdir(root)):
            p = os.path.join(root, d)
            if not os.path.isdir(p) or not os.path.exists(os.path.join(p, "expected.txt")):
                continue
            files = {}
            for base, _, fs in os.walk(p):
                for f in fs:
                    full = os.path.join(base, f)
                    rel = os.path.relpath(full, p)
                    try:
                        files[rel] = open(full, encoding="utf-8").read()
                    except UnicodeDecodeError:
                        pass
            out.append((group + "/" + d, d + ".ddp", files))
    return out


def main():
    ddp = pipeline.build()
    cases = collect()
    bad = 0
    for name, mainf, files in cases:
        stdin = files.get("input.txt", "")
        r = pipeline.compile_run(ddp, files, pipeline.Config(opt=1), stdin=stdin, timeout=20, main=mainf)
        exp = files["expected.txt"]
        # the sandbox has no de_DE locale: Kommazahlen print with "." instead of ","
        norm = lambda t: t.replace("\r\n", "\n").replace(",", ".")
        ok = r.stage == "run" and norm(r.stdout) == norm(exp)
        if not ok:
            bad += 1
            print("FAIL", name, r.cls, r.exit)
            if "-v" in sys.argv:
                print(r.compile_out[-800:], r.stderr[-400:])
                print("got:", repr(r.stdout[-300:]))
                print("exp:", repr(exp[-300:]))
    print("%d/%d repo program tests pass" % (len(cases) - bad, len(cases)))
    return 1 if bad else 0


if __name__ == "__main__":
    sys.exit(main())

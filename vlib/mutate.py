"""Ill-formed variants of generated programs (C04): AST-level mutations whose verdict the Lean static
checker decides, and text-level mutations that are ill-formed by construction."""
import copy

from . import gen

EXPR = gen.__dict__.get("EXPR_KINDS") or ("int", "float", "bool", "char", "text", "var", "un", "bin", "ter", "cast", "typecheck",
                                           "default", "list", "listrep", "call", "field", "struct")
STMT = ("decl", "assign", "compound", "if", "while", "dowhile", "repeat", "for", "foreach", "break", "continue", "ret", "expr",
        "print", "println", "todo")
LITS = [("int", 3), ("float", 0x3FF8000000000000), ("bool", True), ("char", 0x61), ("text", [0x61, 0x62]),
        ("list", "Z", [("int", 1)]), ("list", "T", [("text", [0x78])])]


def is_expr(x):
    return isinstance(x, tuple) and x and isinstance(x[0], str) and x[0] in EXPR


def is_stmt(x):
    return isinstance(x, tuple) and x and isinstance(x[0], str) and x[0] in STMT


def expr_sites(node, path=()):
    """paths of all expression nodes below node (a program dict, list, tuple)"""
    if isinstance(node, dict):
        for k in ("globals", "funcs", "main"):
            yield from expr_sites(node[k], path + (k,))
    elif isinstance(node, list):
        for i, x in enumerate(node):
            yield from expr_sites(x, path + (i,))
    elif isinstance(node, tuple):
        if is_expr(node):
            yield path
        for i, x in enumerate(node):
            if isinstance(x, (list, tuple)):
                yield from expr_sites(x, path + (i,))
    elif isinstance(node, dict):
        pass


def func_sites(p):
    for i, f in enumerate(p["funcs"]):
        yield from expr_sites(f["body"], ("funcs", i, "body"))


def get(node, path):
    for k in path:
        node = node[k]
    return node


def replace(node, path, new):
    """a copy of node with the element at path replaced"""
    if not path:
        return new
    k = path[0]
    if isinstance(node, dict):
        out = dict(node)
        out[k] = replace(node[k], path[1:], new)
        return out
    if isinstance(node, list):
        out = list(node)
        out[k] = replace(node[k], path[1:], new)
        return out
    if isinstance(node, tuple):
        out = list(node)
        out[k] = replace(node[k], path[1:], new)
        return tuple(out)
    raise ValueError(path)


def block_sites(node, path=()):
    """paths of all statement lists"""
    if isinstance(node, dict) and "main" in node:
        yield ("globals",)
        yield ("main",)
        yield from block_sites(node["main"], ("main",))
        for i, f in enumerate(node["funcs"]):
            yield ("funcs", i, "body")
            yield from block_sites(f["body"], ("funcs", i, "body"))
    elif isinstance(node, list):
        for i, x in enumerate(node):
            if is_stmt(x):
                for j, y in enumerate(x):
                    if isinstance(y, list) and (not y or is_stmt(y[0])):
                        yield path + (i, j)
                        yield from block_sites(y, path + (i, j))


def all_expr_sites(p):
    sites = list(expr_sites(p["globals"], ("globals",))) + list(expr_sites(p["main"], ("main",)))
    for i, f in enumerate(p["funcs"]):
        sites += list(expr_sites(f["body"], ("funcs", i, "body")))
    return sites


def ast_mutants(p, rng, n):
    """yields (kind, mutant program); the static checker decides whether it is ill-formed"""
    sites = all_expr_sites(p)
    blocks = list(block_sites(p))
    out = []
    tries = 0
    while len(out) < n and tries < 10 * n:
        tries += 1
        k = rng.below(9)
        if k <= 3 and sites:
            # an expression of (probably) the wrong type where another was expected
            path = sites[rng.below(len(sites))]
            old = get(p, path)
            parent = get(p, path[:-1]) if path else None
            if isinstance(parent, tuple) and parent and parent[0] == "expr":
                continue    # the expression of an expression statement may be of any type (and a sentence has to start with a capital letter)
            # an element of a list literal: the written literal carries no element type of its own (`eine Liste, die aus … besteht`
            # is typed by its elements), so the tree with the old annotation and a new element prints as a well-formed literal of
            # another list type whenever all elements change alike — not a static fault by construction
            grand = get(p, path[:-2]) if len(path) >= 2 else None
            if isinstance(grand, tuple) and grand and grand[0] == "list":
                continue
            if isinstance(parent, tuple) and parent and parent[0] == "listrep" and path[-1] == 3:
                continue
            new = LITS[rng.below(len(LITS))]
            if new[0] == old[0]:
                continue
            out.append(("wrong-type-at:" + old[0], replace(p, path, new)))
        elif k == 4 and sites:
            vs = [s for s in sites if get(p, s)[0] == "var"]
            if not vs:
                continue
            path = vs[rng.below(len(vs))]
            out.append(("undeclared-name", replace(p, path, ("var", "nirgendwo_deklariert"))))
        elif k == 5 and blocks:
            # redeclaration in one scope
            cands = []
            for b in blocks:
                for i, s in enumerate(get(p, b)):
                    if s[0] == "decl":
                        cands.append((b, i))
            if not cands:
                continue
            b, i = cands[rng.below(len(cands))]
            ss = list(get(p, b))
            ss.insert(i + 1, ss[i])
            out.append(("redeclaration", replace(p, b, ss)))
        elif k == 6 and blocks:
            # Verlasse / Fahre fort outside of a loop: at the top level of the module or of a function
            tops = [("main",)] + [("funcs", i, "body") for i in range(len(p["funcs"]))]
            b = tops[rng.below(len(tops))]
            ss = list(get(p, b))
            ss.insert(rng.below(len(ss) + 1), (("break",) if rng.below(2) else ("continue",)))
            out.append(("break-outside-loop", replace(p, b, ss)))
        elif k == 7:
            fs = [i for i, f in enumerate(p["funcs"]) if f["ret"] != "N" and f["body"] and f["body"][-1][0] == "ret"]
            if not fs:
                continue
            i = fs[rng.below(len(fs))]
            f = dict(p["funcs"][i])
            f["body"] = f["body"][:-1]
            out.append(("missing-final-return", replace(p, ("funcs", i), f)))
        elif k == 8 and blocks:
            # use of a name after the block that declared it has ended
            cands = []
            for b in blocks:
                ss = get(p, b)
                for i, s in enumerate(ss):
                    for j, y in enumerate(s):
                        if isinstance(y, list) and y and is_stmt(y[0]):
                            for d in y:
                                if d[0] == "decl":
                                    cands.append((b, i, d))
            if not cands:
                continue
            b, i, d = cands[rng.below(len(cands))]
            ss = list(get(p, b))
            ss.insert(i + 1, ("decl", d[1], "nach_dem_block", ("var", d[2])))
            out.append(("out-of-scope-name", replace(p, b, ss)))
    return out


REFT = {"Zahl": ("Zahlen Referenz", "Zahlen Liste", "1, 2"), "Text": ("Text Referenz", "Text Liste", '"a", "b"'),
        "Buchstabe": ("Buchstaben Referenz", "Buchstaben Liste", "'a', 'b'"), "Kommazahl": ("Kommazahlen Referenz", "Kommazahlen Liste", "1,5, 2,5"),
        "Wahrheitswert": ("Wahrheitswert Referenz", "Wahrheitswert Liste", "wahr, falsch")}


def _ref_call(P, listtype, vals, extra=""):
    """a function with a `P Referenz` parameter called with an element of a list of type `listtype`"""
    return (extra + "Die Funktion rf_%s mit dem Parameter r vom Typ %s, gibt nichts zurück, macht:\n\tSchreibe 1.\nUnd kann so benutzt werden:\n\t\"rf_%s <r>\"\n"
            "Die %s rf_l ist eine Liste, die aus %s besteht.\nrf_%s (rf_l an der Stelle 1).\n" % (P, REFT[P][0], P, listtype, vals, P))


def text_wellformed(src):
    """(kind, source) variants that stay well-formed: the explicit counterparts of the type-definition mutants"""
    TD = ("Wir definieren eine Hausnummer als eine Zahl.\nWir definieren eine Postleitzahl als eine Zahl.\nDie Hausnummer hn_ok ist 5 als Hausnummer.\n"
          "Die Postleitzahl pz_ok ist 10115 als Postleitzahl.\n")
    FN = ("Die Funktion nimm_hn mit dem Parameter h vom Typ Hausnummer, gibt eine Zahl zurück, macht:\n\tGib h als Zahl zurück.\nUnd kann so benutzt werden:\n\t\"nimm_hn <h>\"\n")
    out = []
    for kind, snippet in [("typedef-explicit-conversions", "Die Hausnummer hn ist 7 als Hausnummer.\nDie Zahl zz_td ist hn als Zahl.\nSpeichere 8 als Hausnummer in hn_ok.\n"
                                                           "Die Postleitzahl pz ist (hn als Zahl) als Postleitzahl.\n"),
                          ("typedef-argument-and-return", FN + "Die Zahl r_td ist nimm_hn hn_ok.\nDie Funktion gib_td mit dem Parameter p vom Typ Zahl, gibt eine Hausnummer zurück, macht:\n"
                                                               "\tGib p als Hausnummer zurück.\nUnd kann so benutzt werden:\n\t\"gib_td <p>\"\nDie Hausnummer hn2 ist gib_td 4.\n"),
                          ("typedef-list", "Die Hausnummer Liste hl ist eine Liste, die aus hn_ok, (2 als Hausnummer) besteht.\n")]:
        out.append((kind, src + TD + snippet))
    # an element of a list as argument for a Referenz parameter of the element type
    for P in REFT:
        out.append(("referenz-argument-element:" + P, src + _ref_call(P, REFT[P][1], REFT[P][2])))
    # the counterparts of the redeclaration mutants: the same declarations with two different names
    out.append(("names-foreach-index", src + "Für jede Zahl rd_e mit Index rd_i in eine Liste, die aus 10, 20 besteht, mache:\n\tSchreibe (rd_e plus rd_i).\n"))
    out.append(("names-fields", src + 'Wir nennen die Kombination aus\n\tder Zahl rd_a mit Standardwert 1,\n\tder Zahl rd_b mit Standardwert 2,\neinen Rdpaar, und erstellen sie so:\n\t"ein Rdpaar"\n'))
    out.append(("names-parameters", src + "Die Funktion rd_fn mit den Parametern rd_p und rd_q vom Typ Zahl und Zahl, gibt eine Zahl zurück, macht:\n\tGib rd_p plus rd_q zurück.\n"
                                          "Und kann so benutzt werden:\n\t\"rd_fn <rd_p> <rd_q>\"\n"))
    return out


def text_mutants(src, rng):
    """(kind, source) variants that are ill-formed by construction, made on the printed program"""
    out = []
    lines = src.split("\n")
    # wrong article for the type's grammatical gender
    swaps = [("Die Zahl ", "Der Zahl "), ("Der Text ", "Die Text "), ("Die Kommazahl ", "Das Kommazahl "), ("Der Wahrheitswert ", "Die Wahrheitswert "),
             ("Die Zahlen Liste ", "Der Zahlen Liste "), ("Der Buchstabe ", "Die Buchstabe "), ("Der Byte ", "Die Byte "), ("Die Text Liste ", "Das Text Liste ")]
    cands = [(i, a, b) for i, l in enumerate(lines) for a, b in swaps if l.lstrip("\t").startswith(a)]
    if cands:
        i, a, b = cands[rng.below(len(cands))]
        m = list(lines)
        m[i] = m[i].replace(a, b, 1)
        out.append(("wrong-article", "\n".join(m)))
    # wrong pronoun / article in other positions
    for kind, a, b in [("wrong-pronoun-for-loop", "Für jede Zahl ", "Für jeden Zahl "), ("wrong-pronoun-for-each", "Für jeden Text ", "Für jede Text "),
                       ("wrong-article-return-type", ", gibt eine Zahl zurück", ", gibt einen Zahl zurück"),
                       ("wrong-article-return-type", ", gibt einen Text zurück", ", gibt eine Text zurück"),
                       ("wrong-article-type-check", " eine Zahl ist", " ein Zahl ist"), ("wrong-article-type-check", " ein Text ist", " eine Text ist")]:
        idx = [i for i, l in enumerate(lines) if a in l]
        if idx:
            i = idx[rng.below(len(idx))]
            m = list(lines)
            m[i] = m[i].replace(a, b, 1)
            out.append((kind, "\n".join(m)))
    out.append(("wrong-article-standardwert", src + "Die Zahl sw_z ist der Standardwert von einem Zahl.\n"))
    out.append(("wrong-article-parameter-less", src + "Der Zahl falsch_dekl ist 1.\n"))
    # redeclaration in one scope, at the declaration sites that are not statements of a block: the index of a for-each loop named
    # like its element, two fields of one Kombination, two parameters of one function
    out.append(("redeclaration-foreach-index", src + "Für jede Zahl rd_e mit Index rd_e in eine Liste, die aus 10, 20 besteht, mache:\n\tSchreibe rd_e.\n"))
    out.append(("redeclaration-field", src + 'Wir nennen die Kombination aus\n\tder Zahl rd_a mit Standardwert 1,\n\tder Zahl rd_a mit Standardwert 2,\neinen Rdpaar, und erstellen sie so:\n\t"ein Rdpaar"\n'))
    out.append(("redeclaration-parameter", src + "Die Funktion rd_fn mit den Parametern rd_p und rd_p vom Typ Zahl und Zahl, gibt eine Zahl zurück, macht:\n\tGib rd_p zurück.\n"
                                                 "Und kann so benutzt werden:\n\t\"rd_fn <rd_p> <rd_p>\"\n"))
    # an element of a list of another element type (or of a type definition over the right one) as argument for a Referenz parameter
    pairs = [(P, Q) for P in REFT for Q in REFT if P != Q]
    k0 = sum(map(ord, src)) % len(pairs)
    for d in range(3):
        P, Q = pairs[(k0 + 7 * d) % len(pairs)]
        out.append(("referenz-argument-element-of-wrong-list:%s:%s" % (P, Q), src + _ref_call(P, REFT[Q][1], REFT[Q][2])))
    out.append(("referenz-argument-element-of-definition-list", src + _ref_call("Buchstabe", "Zeichen Liste", "('a' als Zeichen), ('b' als Zeichen)",
                                                                               "Wir definieren ein Zeichen als einen Buchstaben.\n")))
    out.append(("referenz-argument-element-of-wrong-list:Buchstabe:%s" % ("Zahl", "Text")[k0 % 2], src + _ref_call("Buchstabe", REFT[("Zahl", "Text")[k0 % 2]][1], REFT[("Zahl", "Text")[k0 % 2]][2])))
    # a Konstante is assigned to / passed as Referenz / element-assigned
    out.append(("assign-to-konstante", src + "Die Konstante KONST_A ist 5.\nSpeichere 6 in KONST_A.\n"))
    out.append(("compound-assign-to-konstante", src + "Die Konstante KONST_B ist 5.\nErhöhe KONST_B um 1.\n"))
    out.append(("konstante-as-referenz", src + "Die Konstante KONST_C ist 5.\nDie Funktion aendere mit dem Parameter r vom Typ Zahlen Referenz, gibt nichts zurück, macht:\n"
                                               "\tSpeichere 1 in r.\nUnd kann so benutzt werden:\n\t\"aendere <r>\"\naendere KONST_C.\n"))
    out.append(("assign-to-element-of-konstante", src + "Die Konstante KONST_L ist eine Liste, die aus 1, 2, 3 besteht.\nSpeichere 9 in KONST_L an der Stelle 1.\n"))
    out.append(("element-of-konstante-as-referenz", src + "Die Konstante KONST_M ist eine Liste, die aus 1, 2, 3 besteht.\n"
                                                          "Die Funktion aendere2 mit dem Parameter r vom Typ Zahlen Referenz, gibt nichts zurück, macht:\n"
                                                          "\tSpeichere 1 in r.\nUnd kann so benutzt werden:\n\t\"aendere2 <r>\"\naendere2 (KONST_M an der Stelle 1).\n"))
    out.append(("character-of-konstante-text", src + 'Die Konstante KONST_T ist "abc".\nSpeichere \'x\' in KONST_T an der Stelle 1.\n'))
    # type definitions are types of their own: a value of the base type or of another definition of the same base is a value of a
    # wrong type in every position (initialiser, assigned value, argument, returned value, list element)
    TD = ("Wir definieren eine Hausnummer als eine Zahl.\nWir definieren eine Postleitzahl als eine Zahl.\nDie Hausnummer hn_ok ist 5 als Hausnummer.\n"
          "Die Postleitzahl pz_ok ist 10115 als Postleitzahl.\n")
    FN = ("Die Funktion nimm_hn mit dem Parameter h vom Typ Hausnummer, gibt eine Zahl zurück, macht:\n\tGib h als Zahl zurück.\nUnd kann so benutzt werden:\n\t\"nimm_hn <h>\"\n")
    def ret(ty, param, val):
        return ("Die Funktion gib_td mit dem Parameter p vom Typ %s, gibt eine %s zurück, macht:\n\tGib %s zurück.\nUnd kann so benutzt werden:\n\t\"gib_td <p>\"\n" % (param, ty, val))
    for kind, snippet in [("typedef-initialiser-of-base-type", "Die Hausnummer hn ist 5.\n"), ("typedef-initialiser-of-sibling", "Die Postleitzahl pz ist hn_ok.\n"),
                          ("base-initialiser-of-typedef", "Die Zahl zz_td ist hn_ok.\n"), ("typedef-assigned-base", "Speichere 6 in hn_ok.\n"),
                          ("typedef-assigned-sibling", "Speichere pz_ok in hn_ok.\n"), ("typedef-argument-of-base-type", FN + "Die Zahl r_td ist nimm_hn 5.\n"),
                          ("typedef-argument-of-sibling", FN + "Die Zahl r_td ist nimm_hn pz_ok.\n"), ("typedef-returned-base", ret("Hausnummer", "Zahl", "p")),
                          ("typedef-returned-sibling", ret("Hausnummer", "Postleitzahl", "p")), ("base-returned-typedef", ret("Zahl", "Hausnummer", "p")),
                          ("typedef-list-element-of-base-type", "Die Hausnummer Liste hl ist eine Liste, die aus 1, 2 besteht.\n"),
                          ("typedef-operand-of-builtin-operator", "Die Zahl s_td ist hn_ok plus 1.\n")]:
        out.append((kind, src + TD + snippet))
    # the result of a function that returns nothing is a value of no type: wrong in every position
    NF = ("Die Funktion tue_nichts gibt nichts zurück, macht:\n\tDie Zahl lokal_n ist 1.\nUnd kann so benutzt werden:\n\t\"tue nichts\"\n"
          "Die Variable var_n ist 1.\nDie Zahl zahl_n ist 1.\n")
    for kind, snippet in [("nichts-assigned-to-variable", "Speichere (tue nichts) in var_n.\n"), ("nichts-assigned-to-zahl", "Speichere (tue nichts) in zahl_n.\n"),
                          ("nichts-initialiser-of-variable", "Die Variable var_m ist (tue nichts).\n"), ("nichts-operand", "Die Zahl zahl_m ist (tue nichts) plus 1.\n"),
                          ("nichts-list-element", "Die Variablen Liste vl_n ist eine Liste, die aus (tue nichts) besteht.\n"),
                          ("nichts-condition", "Wenn (tue nichts), dann:\n\tSpeichere 2 in zahl_n.\n"),
                          ("nichts-returned", "Die Funktion gib_n gibt eine Variable zurück, macht:\n\tGib (tue nichts) zurück.\nUnd kann so benutzt werden:\n\t\"gib_n\"\n"),
                          ("nichts-repeat-count", "Wiederhole:\n\tSpeichere 2 in zahl_n.\n(tue nichts) Mal.\n"),
                          ("nichts-cast", "Die Zahl zahl_m ist (tue nichts) als Zahl.\n")]:
        out.append((kind, src + NF + snippet))
    out.append(("return-outside-function", src + "Gib 1 zurück.\n"))
    out.append(("condition-not-wahrheitswert", src + "Wenn 1, dann:\n\tSchreibe 1.\n"))
    return out

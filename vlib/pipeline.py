"""Build kddp + runtime + stdlib subset from /repo's working tree into a cached
install tree; compile and run DDP programs with it (parallel farm)."""
import os
import shutil
import subprocess
import tempfile
import time
from concurrent.futures import ThreadPoolExecutor

from .common import REPO, CACHE, LOCALE, VERIF, NPROC, run, lock, log, goenv, hash_files, walk_files

STDLIB_SKIP = {"regex.c", "compression.c"}   # pcre2 / libarchive sources are not in the sandbox


def tree_hash():
    files = walk_files(os.path.join(REPO, "src"), (".go", ".c", ".h", ".cpp"))
    files += walk_files(os.path.join(REPO, "cmd"), (".go",))
    files += walk_files(os.path.join(REPO, "lib", "runtime"), (".c", ".h", "Makefile"))
    files += walk_files(os.path.join(REPO, "lib", "stdlib"), (".c", ".h", ".ddp"), exclude_dirs=("build",))
    files += [os.path.join(REPO, "go.mod")]
    files += [os.path.join(VERIF, "harness", "cdaemon", "main.go")]
    # "asan2": memcpy(dst, NULL, 0) on empty lists is reported by UBSan's nonnull-attribute check; it touches
    # no memory and is not what C05 is about, so that one check is switched off in the sanitizer build
    return hash_files(files + [__file__])      # this file holds the build flags


def ensure_locale():
    os.makedirs(LOCALE, exist_ok=True)
    l = os.path.join(LOCALE, "de_DE.UTF-8")
    if not os.path.islink(l):
        try:
            os.symlink("/usr/lib/locale/C.utf8", l)
        except FileExistsError:
            pass


def llvm_env():
    e = goenv()
    def cfg(*a):
        return subprocess.check_output(["llvm-config-14"] + list(a), text=True).strip().replace("\n", " ")
    e["CGO_CPPFLAGS"] = cfg("--cppflags")
    e["CGO_CXXFLAGS"] = "-std=c++14"
    e["CGO_LDFLAGS"] = cfg("--ldflags", "--libs", "--system-libs", "all")
    return e


def _cc(args, cwd):
    p = run(args, cwd=cwd)
    if p.returncode != 0:
        raise RuntimeError("cc failed: %s\n%s" % (" ".join(args), p.stderr[-3000:]))


def build(asan=False, tags="byollvm"):
    """Returns the DDPPATH of an install tree built from the current working tree."""
    ensure_locale()
    h = tree_hash()
    root = os.path.join(CACHE, "tree", h)
    ddp = os.path.join(root, "DDP")
    stamp = os.path.join(root, "ok")
    with lock("pipeline"):
        if os.path.exists(stamp):
            os.utime(stamp)
            return ddp
        log("[pipeline] building install tree %s from %s" % (h, REPO))
        t0 = time.time()
        shutil.rmtree(root, ignore_errors=True)
        os.makedirs(os.path.join(ddp, "bin"))
        os.makedirs(os.path.join(ddp, "lib"))
        # kddp
        p = run(["go", "build", "-o", os.path.join(ddp, "bin", "kddp"), "-tags", tags, "."],
                cwd=os.path.join(REPO, "cmd", "kddp"), env=llvm_env(), timeout=3000)
        if p.returncode != 0:
            raise RuntimeError("kddp build failed:\n" + p.stderr[-4000:])
        # in-process batch compiler (same sources, same LLVM) for bulk compilation
        hsrc = os.path.join(VERIF, "harness")
        gosum = os.path.join(hsrc, "go.sum")
        repo_sum = open(os.path.join(REPO, "go.sum")).read()
        if not os.path.exists(gosum) or open(gosum).read() != repo_sum:
            open(gosum, "w").write(repo_sum)
        p = run(["go", "build", "-o", os.path.join(ddp, "bin", "cdaemon"), "-tags", tags + " verif", "./cdaemon"],
                cwd=hsrc, env=llvm_env(), timeout=3000)
        if p.returncode != 0:
            raise RuntimeError("cdaemon build failed:\n" + p.stderr[-4000:])
        # runtime + stdlib: copy sources to scratch, compile there
        scratch = os.path.join(root, "src")
        shutil.copytree(os.path.join(REPO, "lib", "runtime"), os.path.join(scratch, "runtime"))
        shutil.copytree(os.path.join(REPO, "lib", "stdlib"), os.path.join(scratch, "stdlib"))
        for variant, flags in (("", ["-O2"]), ("_asan", ["-O1", "-g", "-fsanitize=address,undefined", "-fno-sanitize=nonnull-attribute", "-fno-omit-frame-pointer"])):
            libdir = os.path.join(ddp, "lib" + variant)
            os.makedirs(libdir, exist_ok=True)
            rt = os.path.join(scratch, "runtime")
            objs = []
            jobs = []
            srcs = walk_files(os.path.join(rt, "source"), (".c",))
            inc = ["-I" + os.path.join(rt, "include")]
            base = ["gcc", "-c", "-Wall", "-Wextra", "-Wno-format", "-std=c11", "-D_POSIX_C_SOURCE=200809L"] + flags
            for s in srcs:
                o = s[:-2] + variant + ".o"
                jobs.append((base + inc + ["-o", o, s], rt))
                if not s.endswith("/main.c"):
                    objs.append(o)
                else:
                    mainobj = o
            st = os.path.join(scratch, "stdlib")
            sobjs = []
            sinc = inc + ["-I" + os.path.join(st, "include")]
            for s in walk_files(os.path.join(st, "source"), (".c",)):
                if os.path.basename(s) in STDLIB_SKIP:
                    continue
                o = s[:-2] + variant + ".o"
                jobs.append((["gcc", "-c", "-Wno-format", "-std=c11", "-D_POSIX_C_SOURCE=200809L", "-D_GNU_SOURCE"] + flags + sinc + ["-o", o, s], st))
                sobjs.append(o)
            failed = []
            with ThreadPoolExecutor(NPROC) as ex:
                rs = list(ex.map(lambda j: (j, run(j[0], cwd=j[1])), jobs))
            for j, r in rs:
                if r.returncode != 0:
                    failed.append((j[0][-1], r.stderr[-500:]))
            okobjs = [o for o in sobjs if os.path.exists(o)]
            for f, e in failed:
                if "/runtime/" in f:
                    raise RuntimeError("runtime compile failed: %s\n%s" % (f, e))
                log("[pipeline] stdlib file skipped (does not compile offline): %s" % os.path.basename(f))
            _cc(["ar", "rcs", os.path.join(libdir, "libddpruntime.a")] + objs, rt)
            _cc(["ar", "rcs", os.path.join(libdir, "libddpstdlib.a")] + okobjs, st)
            shutil.copyfile(mainobj, os.path.join(libdir, "main.o"))
        shutil.copytree(os.path.join(REPO, "lib", "stdlib", "Duden"), os.path.join(ddp, "Duden"))
        inc_out = os.path.join(ddp, "include")
        shutil.copytree(os.path.join(REPO, "lib", "runtime", "include"), inc_out)
        e = dict(os.environ)
        e["DDPPATH"] = ddp
        p = run([os.path.join(ddp, "bin", "kddp"), "dump-list-defs", "-o", os.path.join(ddp, "lib", "ddp_list_types_defs"), "--llvm-ir", "--object"], env=e, timeout=600)
        if p.returncode != 0:
            raise RuntimeError("dump-list-defs failed:\n" + p.stdout[-2000:] + p.stderr[-2000:])
        for ext in (".ll", ".o"):
            src = os.path.join(ddp, "lib", "ddp_list_types_defs" + ext)
            if os.path.exists(src):
                shutil.copyfile(src, os.path.join(ddp, "lib_asan", "ddp_list_types_defs" + ext))
        shutil.rmtree(scratch, ignore_errors=True)
        open(stamp, "w").write(str(time.time()))
        log("[pipeline] built in %.0fs" % (time.time() - t0))
        # keep only the 3 most recently used trees
        base = os.path.join(CACHE, "tree")
        trees = sorted((os.path.getmtime(os.path.join(base, d, "ok")) if os.path.exists(os.path.join(base, d, "ok")) else 0, d) for d in os.listdir(base))
        for _, d in trees[:-3]:
            shutil.rmtree(os.path.join(base, d), ignore_errors=True)
        return ddp


class Config:
    def __init__(self, opt=1, module_link=True, listdefs_link=True, asan=False, ledger=False):
        self.opt = opt
        self.module_link = module_link
        self.listdefs_link = listdefs_link
        self.asan = asan
        self.ledger = ledger

    def name(self):
        return "O%d%s%s%s" % (self.opt, "" if self.module_link else "-nomod", "" if self.listdefs_link else "-nolist", "-asan" if self.asan else "") + ("-ledger" if self.ledger else "")


class RunResult:
    __slots__ = ("stage", "stdout", "stderr", "exit", "compile_out", "cls", "timeout", "ledger")

    def __init__(self):
        self.stage = "run"
        self.stdout = ""
        self.stderr = ""
        self.exit = None
        self.compile_out = ""
        self.cls = ""
        self.timeout = False
        self.ledger = None

    def classify(self):
        if self.stage == "compile":
            if "Unerwarteter Fehler" in self.compile_out or "panic" in self.compile_out or "runtime error" in self.compile_out:
                self.cls = "compile-internal-error"
            else:
                self.cls = "compile-rejected"
        elif self.stage == "link":
            self.cls = "link-error"
        elif self.timeout:
            self.cls = "timeout"
        elif "ERROR: AddressSanitizer" in self.stderr or "runtime error:" in self.stderr and "Laufzeitfehler" not in self.stderr or "LeakSanitizer" in self.stderr:
            self.cls = "sanitizer"
        elif "Laufzeitfehler" in self.stderr:
            self.cls = "laufzeitfehler"
        elif self.exit is not None and self.exit < 0:
            self.cls = "signal"
        else:
            self.cls = "ok"
        return self.cls

    def as_dict(self):
        return {"stage": self.stage, "class": self.cls, "stdout": self.stdout[-2000:], "stderr": self.stderr[-1500:], "exit": self.exit, "compile_out": self.compile_out[-1500:]}


def compile_run(ddp, files, cfg=None, stdin="", timeout=10, main="main.ddp", extra_c=None, workdir=None, keep=False, compile_only=False):
    """files: dict relpath -> source text. Compiles `main` with kddp of the
    tree, links with gcc, runs. Returns RunResult."""
    cfg = cfg or Config()
    r = RunResult()
    own = workdir is None
    if own:
        os.makedirs(os.path.join(CACHE, "work"), exist_ok=True)
        workdir = tempfile.mkdtemp(dir=os.path.join(CACHE, "work"))
    try:
        for rel, txt in files.items():
            p = os.path.join(workdir, rel)
            os.makedirs(os.path.dirname(p), exist_ok=True)
            with open(p, "w", encoding="utf-8", newline="") as f:
                f.write(txt)
        e = dict(os.environ)
        e["DDPPATH"] = ddp
        e["LOCPATH"] = LOCALE
        obj = os.path.join(workdir, "out.o")
        cmd = [os.path.join(ddp, "bin", "kddp"), "kompiliere", main, "-o", obj, "-O", str(cfg.opt)]
        if not cfg.module_link:
            cmd.append("--module-linken=false")
        if not cfg.listdefs_link:
            cmd.append("--list-defs-linken=false")
        p = run(cmd, cwd=workdir, env=e, timeout=60)
        r.compile_out = (p.stdout or "") + (p.stderr or "")
        if p.returncode != 0 or not os.path.exists(obj) or os.path.getsize(obj) == 0:
            r.stage = "compile"
            r.exit = p.returncode
            r.classify()
            return r
        if compile_only:
            r.stage = "run"
            r.cls = "ok"
            return r
        libdir = os.path.join(ddp, "lib_asan" if cfg.asan else "lib")
        exe = os.path.join(workdir, "prog")
        link = ["gcc", "-o", exe, obj]
        if cfg.ledger:
            link += ["-Wl,--wrap=ddp_reallocate", os.path.join(CACHE, "bin", "ledger.o")]
        for c in (extra_c or []):
            link += [os.path.join(workdir, c)]
        link += ["-I" + os.path.join(ddp, "include")]
        if not cfg.listdefs_link:
            link.append(os.path.join(ddp, "lib", "ddp_list_types_defs.o"))
        link += ["-L" + libdir, "-lddpstdlib", "-lddpruntime", "-lm", os.path.join(libdir, "main.o")]
        if cfg.asan:
            link += ["-fsanitize=address,undefined"]
        p = run(link, cwd=workdir, timeout=120)
        if p.returncode != 0:
            r.stage = "link"
            r.compile_out += p.stderr
            r.classify()
            return r
        if cfg.asan:
            e["ASAN_OPTIONS"] = "detect_leaks=1:abort_on_error=0:exitcode=99"
            e["UBSAN_OPTIONS"] = "print_stacktrace=0"
        if cfg.ledger:
            e["DDP_LEDGER"] = os.path.join(workdir, "ledger.txt")
        try:
            pr = subprocess.run([exe], cwd=workdir, env=e, input=stdin.encode(), stdout=subprocess.PIPE, stderr=subprocess.PIPE, timeout=timeout)
            r.stdout = pr.stdout.decode("utf-8", "replace")
            r.stderr = pr.stderr.decode("utf-8", "replace")
            r.exit = pr.returncode
        except subprocess.TimeoutExpired as ex:
            r.timeout = True
            r.stdout = (ex.stdout or b"").decode("utf-8", "replace")
            r.stderr = (ex.stderr or b"").decode("utf-8", "replace")
        _read_ledger(cfg, workdir, r)
        r.classify()
        return r
    finally:
        if own and not keep:
            shutil.rmtree(workdir, ignore_errors=True)


def _read_ledger(cfg, workdir, r):
    if not cfg.ledger:
        return
    try:
        with open(os.path.join(workdir, "ledger.txt")) as f:
            r.ledger = f.read(8 << 20)
    except OSError:
        r.ledger = ""


def build_ledger():
    """the C ledger (rtharness/ledger.c) as an object linked with --wrap=ddp_reallocate"""
    src = os.path.join(VERIF, "rtharness", "ledger.c")
    out = os.path.join(CACHE, "bin", "ledger.o")
    os.makedirs(os.path.dirname(out), exist_ok=True)
    if not os.path.exists(out) or os.path.getmtime(out) < os.path.getmtime(src):
        p = run(["gcc", "-O1", "-c", "-o", out, src], timeout=120)
        if p.returncode != 0:
            raise RuntimeError("ledger build failed: " + p.stderr)
    return out


def _link_run(ddp, workdir, cfg, r, stdin="", timeout=10, extra_c=None, objs=None):
    obj = os.path.join(workdir, "out.o")
    e = dict(os.environ)
    e["DDPPATH"] = ddp
    e["LOCPATH"] = LOCALE
    libdir = os.path.join(ddp, "lib_asan" if cfg.asan else "lib")
    exe = os.path.join(workdir, "prog")
    link = ["gcc", "-o", exe] + (list(objs) if objs else [obj])
    if cfg.ledger:
        link += ["-Wl,--wrap=ddp_reallocate", os.path.join(CACHE, "bin", "ledger.o")]
    for c in (extra_c or []):
        link += [os.path.join(workdir, c)]
    link += ["-I" + os.path.join(ddp, "include")]
    if not cfg.listdefs_link:
        link.append(os.path.join(ddp, "lib", "ddp_list_types_defs.o"))
    link += ["-L" + libdir, "-lddpstdlib", "-lddpruntime", "-lm", os.path.join(libdir, "main.o")]
    if cfg.asan:
        link += ["-fsanitize=address,undefined"]
    if cfg.ledger:
        e["DDP_LEDGER"] = os.path.join(workdir, "ledger.txt")
    p = run(link, cwd=workdir, timeout=120)
    if p.returncode != 0:
        r.stage = "link"
        r.compile_out += p.stderr
        r.classify()
        return r
    if cfg.asan:
        e["ASAN_OPTIONS"] = "detect_leaks=1:abort_on_error=0:exitcode=99"
        e["UBSAN_OPTIONS"] = "print_stacktrace=0"
    try:
        pr = subprocess.run([exe], cwd=workdir, env=e, input=stdin.encode(), stdout=subprocess.PIPE, stderr=subprocess.PIPE, timeout=timeout)
        r.stdout = pr.stdout.decode("utf-8", "replace")
        r.stderr = pr.stderr.decode("utf-8", "replace")
        r.exit = pr.returncode
    except subprocess.TimeoutExpired as ex:
        r.timeout = True
        r.stdout = (ex.stdout or b"").decode("utf-8", "replace")
        r.stderr = (ex.stderr or b"").decode("utf-8", "replace")
    _read_ledger(cfg, workdir, r)
    r.classify()
    return r


def farm_cli(ddp, jobs, workers=None):
    """like farm, but every job goes through the real `kddp kompiliere` command line (one process per job):
    the only way to reach code paths of the driver and of compiler.Compile that the batch compiler does not take
    (e.g. --module-linken=false)"""
    workers = workers or max(4, NPROC - 2)

    def one(job):
        files, cfg, *rest = job
        kw = dict(rest[0]) if rest else {}
        return compile_run(ddp, files, cfg, **kw)
    with ThreadPoolExecutor(workers) as ex:
        return list(ex.map(one, jobs))


def farm(ddp, jobs, workers=None, daemons=5):
    """jobs: list of (files, cfg, kwargs). Compiles with the in-process batch compiler
    (cdaemon, same compiler sources), links and runs in a thread pool; anything the
    daemon could not answer, and every failure, is re-done with the real `kddp` binary.
    Returns RunResults in order."""
    import json
    from .corr import run_lines
    workers = workers or max(4, NPROC // 2)
    base = os.path.join(CACHE, "work")
    os.makedirs(base, exist_ok=True)
    dirs = []
    lines = []
    for files, cfg, *rest in jobs:
        kw = rest[0] if rest else {}
        wd = tempfile.mkdtemp(dir=base)
        dirs.append(wd)
        for rel, txt in files.items():
            pth = os.path.join(wd, rel)
            os.makedirs(os.path.dirname(pth), exist_ok=True)
            with open(pth, "w", encoding="utf-8", newline="") as f:
                f.write(txt)
        rq = {"dir": wd, "main": kw.get("main", "main.ddp"), "out": os.path.join(wd, "out.o"), "opt": cfg.opt,
              "link_modules": True, "link_listdefs": cfg.listdefs_link, "separate": not cfg.module_link}
        lines.append(json.dumps(rq).encode().hex())
    env = dict(os.environ)
    env["DDPPATH"] = ddp
    answers = run_lines(os.path.join(ddp, "bin", "cdaemon"), lines, env=env, chunks=daemons if len(lines) >= daemons * 4 else 1)
    results = [None] * len(jobs)

    def finish(i):
        files, cfg, *rest = jobs[i]
        kw = dict(rest[0]) if rest else {}
        compile_only = kw.pop("compile_only", False)
        r = RunResult()
        try:
            a = json.loads(answers[i])
        except Exception:
            a = None
        if (a is None or a.get("result") not in ("ok",)) and not cfg.module_link:
            # separate modules exist only behind the hook: no kddp command line produces them
            r.stage = "compile"
            r.compile_out = json.dumps(a)[:3000] if a else "daemon gave no answer"
            r.cls = "compile-rejected" if a and a.get("result") == "rejected" else "compile-internal-error"
            shutil.rmtree(dirs[i], ignore_errors=True)
            return r
        if a is None or a.get("result") not in ("ok",):
            # confirm with the real compiler binary (also covers daemon crashes)
            shutil.rmtree(dirs[i], ignore_errors=True)
            return compile_run(ddp, files, cfg, compile_only=compile_only, **kw)
        try:
            if compile_only:
                r.cls = "ok"
                return r
            return _link_run(ddp, dirs[i], cfg, r, stdin=kw.get("stdin", ""), timeout=kw.get("timeout", 10), extra_c=kw.get("extra_c"),
                             objs=a.get("objs"))
        finally:
            shutil.rmtree(dirs[i], ignore_errors=True)

    with ThreadPoolExecutor(workers) as ex:
        results = list(ex.map(finish, range(len(jobs))))
    return results

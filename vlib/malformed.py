"""Inputs for the front end that are mostly NOT programs (C03, C07): short token strings over a
small alphabet, token- and byte-level mutations of generated programs and Duden files, invalid
UTF-8, and import arrangements with missing files, directories and cycles."""
import itertools
import os

from . import gen
from .common import Rng

ALPHABET = ["Die", "Zahl", "x", "ist", "1", ".", "(", ")", '"a"', ":", "\n\t", "Wenn", ",", "<x>", "Binde", "und", "Funktion", "'",
            "\"", "[", "Der", "T", "Liste", "von", "als"]
HEAD = 'Binde "Duden/Ausgabe" ein.\n'


def short_strings(maxlen, alphabet=ALPHABET):
    for n in range(0, maxlen + 1):
        for tup in itertools.product(alphabet, repeat=n):
            yield " ".join(tup)


def words(src):
    """source split into words, keeping line structure as separate items"""
    out = []
    for line in src.split("\n"):
        stripped = line.lstrip("\t")
        out.append("\t" * (len(line) - len(stripped)))
        out.extend(w for w in stripped.split(" ") if w != "")
        out.append("\n")
    return out


def unwords(ws):
    s = ""
    for w in ws:
        if w == "\n" or w.startswith("\t") or w == "":
            s += w
        else:
            s += (w if s.endswith(("\n", "\t")) or s == "" else " " + w)
    return s


def token_mutants(src, rng, n, other=None):
    ws = words(src)
    out = []
    for _ in range(n):
        w = list(ws)
        k = rng.below(6)
        i = rng.below(len(w))
        if k == 0:
            del w[i]
        elif k == 1:
            w.insert(i, w[i])
        elif k == 2 and i + 1 < len(w):
            w[i], w[i + 1] = w[i + 1], w[i]
        elif k == 3 and other:
            ow = words(other)
            j = rng.below(len(ow))
            w = w[:i] + ow[j:j + 1 + rng.below(8)] + w[i:]
        elif k == 4:
            w[i] = ALPHABET[rng.below(len(ALPHABET))]
        else:
            w = w[:i]           # truncation in the middle of a construct
        out.append(unwords(w))
    return out


def byte_mutants(src, rng, n):
    raw = bytearray(src.encode("utf-8"))
    out = []
    for _ in range(n):
        b = bytearray(raw)
        if not b:
            b = bytearray(b"x")
        for _ in range(1 + rng.below(3)):
            k = rng.below(5)
            i = rng.below(len(b))
            if k == 0:
                b[i] = rng.below(256)
            elif k == 1:
                del b[i]
            elif k == 2:
                b[i:i] = bytes([0xC3]) if rng.below(2) else bytes([0xF0, 0x9F])      # truncated multi-byte sequences
            elif k == 3:
                b[i:i] = bytes([0x00]) if rng.below(2) else bytes([0xFF, 0xFE])
            else:
                b = b[:i]
                if not b:
                    b = bytearray(b"\xff")
        out.append(bytes(b))
    return out


def import_arrangements(rng, n):
    """requests {files, main} with strange import graphs"""
    out = []
    ok = HEAD + "Die öffentliche Zahl g%d ist %d.\n"
    for _ in range(n):
        k = rng.below(11)
        files = {}
        if k == 0:      # missing file
            files["main.ddp"] = HEAD + 'Binde "gibtsnicht" ein.\nSchreibe 1.\n'
        elif k == 1:    # import of a directory (all files in it), one of them broken
            files["dir/a.ddp"] = ok % (1, 1)
            files["dir/b.ddp"] = "Die Zahl ist ist.\n" if rng.below(2) else ok % (2, 2)
            files["main.ddp"] = HEAD + 'Binde "dir" ein.\nSchreibe g1.\n'
        elif k == 2:    # cycles of length 1..4
            n_ = 1 + rng.below(4)
            for i in range(n_):
                files["c%d.ddp" % i] = HEAD + 'Binde "c%d" ein.\n' % ((i + 1) % n_) + ok % (i, i)
            files["main.ddp"] = HEAD + 'Binde "c0" ein.\nSchreibe g0.\n'
        elif k == 3:    # the main file imports itself
            files["main.ddp"] = HEAD + 'Binde "main" ein.\nDie öffentliche Zahl s ist 1.\n'
        elif k == 4:    # an imported module with syntax / type errors
            files["kaputt.ddp"] = HEAD + 'Die öffentliche Zahl k ist "text".\nDie Zahl\n'
            files["main.ddp"] = HEAD + 'Binde "kaputt" ein.\nSchreibe k.\n'
        elif k == 5:    # by-name import of names that do not exist / twice
            files["m.ddp"] = ok % (1, 1)
            files["main.ddp"] = HEAD + 'Binde g1 und g1 und fehlt aus "m" ein.\nSchreibe g1.\n'
        elif k == 6:    # deep chain
            d = 5 + rng.below(30)
            for i in range(d):
                files["k%d.ddp" % i] = HEAD + ('Binde "k%d" ein.\n' % (i + 1) if i + 1 < d else "") + ok % (i, i)
            files["main.ddp"] = HEAD + 'Binde "k0" ein.\nSchreibe g0.\n'
        elif k == 7:    # import path oddities
            files["m.ddp"] = ok % (1, 1)
            files["main.ddp"] = HEAD + 'Binde "%s" ein.\nSchreibe 1.\n' % ["", ".", "..", "m.ddp", "./m", "m/", "Duden", "Duden/", "/etc/passwd", "m\\n"][rng.below(10)]
        elif k == 9:    # directory imports: missing, empty, a file, itself, nested, with a broken module
            files["dir/a.ddp"] = ok % (1, 1)
            files["dir/tief/b.ddp"] = "Die Zahl ist ist.\n" if rng.below(2) else ok % (2, 2)
            files["leer/.keep"] = ""
            # (never a path that leaves the directory of the request: "..", "/" would walk foreign files)
            what = ["dir", "dir/", "leer", "gibtsnicht", "dir/a.ddp", ".", "dir/..", "dir/tief", "", "leer/../dir", "./dir/tief/.."][rng.below(11)]
            files["main.ddp"] = HEAD + 'Binde %salle Module aus "%s" ein.\nSchreibe 1.\n' % ("rekursiv " if rng.below(2) else "", what)
        elif k == 10:   # directory imports that lead back to the importer
            files["dir/a.ddp"] = HEAD + 'Binde %salle Module aus "%s" ein.\n' % ("rekursiv " if rng.below(2) else "", ["..", ".", "../dir"][rng.below(3)]) + ok % (1, 1)
            files["main.ddp"] = HEAD + 'Binde alle Module aus "dir" ein.\nSchreibe g1.\n'
        else:           # empty and whitespace-only modules
            files["leer.ddp"] = ["", "\n\n", "\t\t", "[ nur ein Kommentar ]", "[ offen"][rng.below(5)]
            files["main.ddp"] = HEAD + 'Binde "leer" ein.\nSchreibe 1.\n'
        out.append({"files": files, "main": "main.ddp"})
    return out


FN = ('Die Funktion foo gibt nichts zurück, macht:\n\tDie Zahl innen ist 1.\nUnd kann so benutzt werden:\n\t"foo"\n'
      'Die Zahlen Liste ls ist eine Liste, die aus 1, 2 besteht.\n')
# where a single statement is expected
HEADERS = ["Wenn wahr, ", "Wenn falsch, foo.\nSonst ", "Wenn falsch, foo.\nWenn aber wahr, ", "Solange falsch, ", "Mache:\n\tfoo.\nSolange falsch.\nWenn wahr, ",
           "Für jede Zahl i von 1 bis 2, ", "Für jede Zahl i von 1 bis 2 mit Schrittgröße 1, ", "Für jede Zahl i in ls, ", "Wiederhole:\n\tfoo.\n2 Mal.\nWenn wahr, ",
           "Wenn wahr, dann:\n\t", "Solange falsch, mache:\n\t", "Die Funktion bar gibt nichts zurück, macht:\n\t", ""]
# everything a statement or declaration can begin with (complete forms; their prefixes are added)
STARTERS = ['Der Alias "bar" steht für die Funktion foo.', 'Der öffentliche Alias "bar" steht für die Funktion foo.', 'Der Alias "bar" steht für die Funktion gibtsnicht.',
            'Der Alias "" steht für die Funktion foo.', 'Der Alias "<x>" steht für die Funktion foo.',
            'Die Funktion baz gibt nichts zurück, macht:\n\tfoo.\nUnd kann so benutzt werden:\n\t"baz"', 'Die Funktion baz gibt nichts zurück, wird später definiert und kann so benutzt werden:\n\t"baz"',
            'Die generische Funktion gen mit dem Parameter p vom Typ T, gibt nichts zurück, macht:\n\tfoo.\nUnd kann so benutzt werden:\n\t"gen <p>"',
            'Die Funktion ext gibt nichts zurück, ist in "ext.c" definiert und kann so benutzt werden:\n\t"ext"',
            'Wir nennen die Kombination aus\n\tder Zahl x mit Standardwert 1,\neinen Punkt, und erstellen sie so:\n\t"ein Punkt"', 'Wir nennen eine Zahl auch eine Nummer.',
            'Wir definieren eine Nummer als eine Zahl.', 'Binde "Duden/Texte" ein.', 'Binde foo aus "main" ein.', 'Binde alle Module aus "x" ein.', 'Die Zahl z ist 1.',
            'Die öffentliche Zahl z ist 1.', 'Die Konstante K ist 1.', 'Der Wahrheitswert w ist wahr, wenn 1 gleich 1 ist.', 'Die Zahlen Liste l2 ist 3 Mal 1.', 'Gib 1 zurück.', 'Gib zurück.',
            'Verlasse die Funktion.', 'Verlasse die Schleife.', 'Fahre mit der Schleife fort.', 'Speichere 1 in innen.', 'Erhöhe innen um 1.', 'foo.', ':', 'dann:', 'Sonst foo.', 'Wenn aber wahr, foo.',
            'Und kann so benutzt werden:\n\t"x"', 'mache:', 'Mache:', 'Wiederhole:', '2 Mal.', 'Solange wahr.', '...', 'Der Operator', 'Die Funktion plus2 mit den Parametern a und b vom Typ Zahl und Zahl, gibt eine Zahl zurück, macht:\n\tGib 1 zurück.\nUnd überlädt den "plus" Operator.']


def nested_starts(quick):
    """every statement/declaration start (and its prefixes) in every position where one statement is expected"""
    for h in HEADERS:
        for st in STARTERS:
            forms = [st]
            ws = st.split(" ")
            if not quick or len(ws) <= 8:
                forms += [" ".join(ws[:k]) for k in range(1, len(ws))]
            elif quick:
                forms += [" ".join(ws[:k]) for k in (1, 2, 3, len(ws) - 1)]
            for f in forms:
                yield FN + h + f + "\n"
                if not quick:
                    yield FN + h + f + ".\nfoo.\n"


def duden_sources(ddp, limit=8):
    d = os.path.join(ddp, "Duden")
    out = []
    for f in sorted(os.listdir(d))[:limit]:
        if f.endswith(".ddp"):
            try:
                out.append(open(os.path.join(d, f), encoding="utf-8").read())
            except (OSError, UnicodeDecodeError):
                pass
    return out


def requests(rng, ddp, base_programs, quick):
    """list of (label, request)"""
    out = []
    for s in short_strings(2 if quick else 3):
        out.append(("short", {"files": {"main.ddp": s}, "main": "main.ddp"}))
    srcs = [gen.pp_program(p) for p in base_programs]
    duden = duden_sources(ddp, 4 if quick else 12)
    for i, s in enumerate(srcs):
        other = srcs[(i + 1) % len(srcs)]
        for m in token_mutants(s, rng, 6 if quick else 30, other):
            out.append(("token-mutant", {"files": {"main.ddp": m}, "main": "main.ddp"}))
        for b in byte_mutants(s, rng, 3 if quick else 12):
            out.append(("byte-mutant", {"files": {}, "hexfiles": {"main.ddp": b.hex()}, "main": "main.ddp"}))
    for s in duden:
        for m in token_mutants(s, rng, 15 if quick else 80, srcs[0] if srcs else None):
            out.append(("duden-token-mutant", {"files": {"main.ddp": m}, "main": "main.ddp"}))
    for rq in import_arrangements(rng, 60 if quick else 600):
        out.append(("imports", rq))
    for src in nested_starts(quick):
        out.append(("nested-start", {"files": {"main.ddp": src}, "main": "main.ddp"}))
    # deep nesting (stack exhaustion candidates)
    for depth in ([50, 400] if quick else [50, 400, 3000, 20000]):
        out.append(("deep-parens", {"files": {"main.ddp": HEAD + "Die Zahl z ist " + "(" * depth + "1" + ")" * depth + ".\n"}, "main": "main.ddp"}))
        out.append(("deep-unary", {"files": {"main.ddp": HEAD + "Die Zahl z ist " + "-" * depth + "1.\n"}, "main": "main.ddp"}))
        out.append(("deep-nicht", {"files": {"main.ddp": HEAD + "Der Wahrheitswert w ist " + "nicht " * depth + "wahr.\n"}, "main": "main.ddp"}))
        out.append(("deep-blocks", {"files": {"main.ddp": HEAD + "".join("\t" * i + "Wenn wahr, dann:\n" for i in range(min(depth, 400))) + "\t" * min(depth, 400) + "Schreibe 1.\n"}, "main": "main.ddp"}))
        out.append(("deep-list-type", {"files": {"main.ddp": HEAD + "Die Zahlen Liste" + " Liste" * min(depth, 50) + " l ist eine leere Zahlen Liste.\n"}, "main": "main.ddp"}))
        out.append(("long-chain", {"files": {"main.ddp": HEAD + "Die Zahl z ist 1" + " plus 1" * depth + ".\n"}, "main": "main.ddp"}))
    # alias calls nested in each other's arguments, well-formed and with one fault in the innermost argument (a fault that is
    # found while the argument is parsed, a type error, a missing parenthesis): the work must stay linear in the depth, with one
    # function behind the alias and with two functions sharing its text
    FN1 = ('Die Funktion doppel mit dem Parameter n vom Typ Zahl, gibt eine Zahl zurück, macht:\n\tGib n mal 2 zurück.\nUnd kann so benutzt werden:\n\t"das Doppelte von <n>"\n\n')
    FN2 = ('Die Funktion doppelT mit dem Parameter n vom Typ Text, gibt einen Text zurück, macht:\n\tGib n verkettet mit n zurück.\nUnd kann so benutzt werden:\n\t"das Doppelte von <n>"\n\n')
    for depth in ([12, 24] if quick else [8, 12, 16, 24, 40, 80]):
        for fl, fns in (("one-function", FN1), ("two-functions", FN1 + FN2)):
            for il, inner in (("well-formed", "(1 plus 2)"), ("fault-in-argument", "(1 plus)"), ("type-error", "(wahr plus 2)"), ("open-parenthesis", "(1 plus 2")):
                e = inner
                for _ in range(depth):
                    e = "(das Doppelte von %s)" % e
                out.append(("nested-alias-calls:%s:%s:%d" % (fl, il, depth), {"files": {"main.ddp": HEAD + fns + "Die Zahl z ist %s.\n" % e}, "main": "main.ddp"}))
    return out

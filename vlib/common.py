"""Shared helpers for the /verif checks: paths, subprocess, locking, hashing,
evidence files, violation reporting, known findings."""
import fcntl
import hashlib
import json
import os
import subprocess
import sys
import time
from contextlib import contextmanager

VERIF = os.path.dirname(os.path.dirname(os.path.abspath(__file__)))
REPO = os.environ.get("VERIF_REPO", "/repo")
CACHE = os.path.join(VERIF, ".cache")
LEAN = os.path.join(VERIF, "lean")
EVIDENCE = os.path.join(VERIF, "evidence")
REPLAYS = os.path.join(VERIF, "replays")
LOCALE = os.path.join(VERIF, "locale")
NPROC = os.cpu_count() or 4

GOENV = {
    "GOFLAGS": "-mod=mod",
    "GOPROXY": "off",
    "GOTOOLCHAIN": "local",
    "GONOSUMDB": "*",
    "GONOSUMCHECK": "1",
    "GOFLAGS_EXTRA": "",
}


def goenv():
    e = dict(os.environ)
    e["GOFLAGS"] = "-mod=mod"
    e["GOPROXY"] = "off"
    # GOSUMDB must not be "off": go.mod asks for toolchain go1.24.0 (cached)
    e.pop("GOSUMDB", None)
    return e


def log(*a):
    print(*a, file=sys.stderr, flush=True)


def run(cmd, cwd=None, env=None, timeout=None, input=None, check=False, text=True):
    """Run a command, capture stdout/stderr. Returns CompletedProcess.
    On timeout returns an object with returncode -999."""
    try:
        p = subprocess.run(cmd, cwd=cwd, env=env, timeout=timeout, input=input,
                           stdout=subprocess.PIPE, stderr=subprocess.PIPE,
                           text=text, shell=isinstance(cmd, str))
    except subprocess.TimeoutExpired as ex:
        class R:
            returncode = -999
            stdout = (ex.stdout or (b"" if not text else ""))
            stderr = (ex.stderr or (b"" if not text else ""))
        r = R()
        if text:
            if isinstance(r.stdout, bytes):
                r.stdout = r.stdout.decode("utf-8", "replace")
            if isinstance(r.stderr, bytes):
                r.stderr = r.stderr.decode("utf-8", "replace")
        return r
    if check and p.returncode != 0:
        raise RuntimeError("command failed (%d): %s\n%s\n%s" % (p.returncode, cmd, p.stdout[-4000:], p.stderr[-4000:]))
    return p


@contextmanager
def lock(name):
    os.makedirs(CACHE, exist_ok=True)
    path = os.path.join(CACHE, name + ".lock")
    with open(path, "w") as f:
        fcntl.flock(f, fcntl.LOCK_EX)
        try:
            yield
        finally:
            fcntl.flock(f, fcntl.LOCK_UN)


def hash_files(paths):
    h = hashlib.sha256()
    for p in sorted(paths):
        h.update(p.encode())
        try:
            with open(p, "rb") as f:
                h.update(hashlib.sha256(f.read()).digest())
        except OSError:
            h.update(b"<missing>")
    return h.hexdigest()[:16]


def walk_files(root, exts, exclude_dirs=()):
    out = []
    for d, dirs, files in os.walk(root):
        dirs[:] = [x for x in dirs if x not in exclude_dirs and not x.startswith(".")]
        for f in files:
            if f.endswith(exts):
                out.append(os.path.join(d, f))
    return out


def seed():
    try:
        return int(os.environ.get("VERIF_SEED", "1"))
    except ValueError:
        return 1


class Rng:
    """Deterministic PRNG (splitmix64) shared by python-side generators so a
    disagreement replays exactly from VERIF_SEED."""

    def __init__(self, s):
        self.s = (s * 0x9E3779B97F4A7C15 + 0x1234567) & 0xFFFFFFFFFFFFFFFF

    def next(self):
        self.s = (self.s + 0x9E3779B97F4A7C15) & 0xFFFFFFFFFFFFFFFF
        z = self.s
        z = ((z ^ (z >> 30)) * 0xBF58476D1CE4E5B9) & 0xFFFFFFFFFFFFFFFF
        z = ((z ^ (z >> 27)) * 0x94D049BB133111EB) & 0xFFFFFFFFFFFFFFFF
        return z ^ (z >> 31)

    def below(self, n):
        return self.next() % n

    def choice(self, xs):
        return xs[self.below(len(xs))]

    def chance(self, num, den):
        return self.below(den) < num

    def shuffle(self, xs):
        xs = list(xs)
        for i in range(len(xs) - 1, 0, -1):
            j = self.below(i + 1)
            xs[i], xs[j] = xs[j], xs[i]
        return xs


# ---------------------------------------------------------------------------
# known findings

def load_known():
    p = os.path.join(VERIF, "known_findings.json")
    if not os.path.exists(p):
        return []
    with open(p) as f:
        return json.load(f).get("entries", [])


def known_for(pid):
    return [e for e in load_known() if e.get("property") == pid and e.get("status") == "finding"]


# ---------------------------------------------------------------------------
# result collection

class Result:
    """Collects obligations, correspondence counts, violations for one property
    run and writes evidence + VIOLATION lines."""

    def __init__(self, pid, tier):
        self.pid = pid
        self.tier = tier
        self.t0 = time.time()
        self.obligations = 0
        self.discharged = 0
        self.theorems = []
        self.axioms = {}
        self.checker_cmd = ""
        self.trusted = [
            "Lean 4.33.0 kernel",
            "axioms allowed: propext, Classical.choice, Quot.sound (audited per theorem with #print axioms)",
        ]
        self.evaluations = 0
        self.distinct = set()
        self.distinct_count_extra = 0
        self.samples = []
        self.rule = ""
        self.exhaustive = None
        self.extra = {}
        self.assumptions = []
        self.violations = []   # (fingerprint, description, replay dict, has_input)
        self.known_hit = []
        self.level = "proof"

    def sample(self, s, limit=8):
        if len(self.samples) < limit:
            self.samples.append(s)

    def nontrivial(self, key):
        self.distinct.add(key)

    def violation(self, fingerprint, description, replay, has_input=True):
        # a broken tree can disagree on every input: the first 25 distinct violations are reported,
        # the rest only counted
        # (repetitions of one fingerprint — e.g. a known finding met on many inputs — do not count)
        if any(v[0] == fingerprint for v in self.violations):
            self.extra["repeated_violations"] = self.extra.get("repeated_violations", 0) + 1
            return
        # and no more than 8 of one kind (the fingerprint's prefix), so that a later stage still gets a say
        kind = fingerprint.split(":")[0]
        if len(self.violations) >= 25 or sum(1 for v in self.violations if v[0].split(":")[0] == kind) >= 8:
            self.extra["further_violations_not_reported"] = self.extra.get("further_violations_not_reported", 0) + 1
            return
        self.violations.append((fingerprint, description, replay, has_input))

    def finish(self):
        os.makedirs(EVIDENCE, exist_ok=True)
        known = known_for(self.pid)
        kfp = {e["fingerprint"]: e for e in known}
        reported = []
        out_lines = []
        seen_fp = set()
        for fp, desc, replay, has_input in self.violations:
            if fp in seen_fp:
                continue
            seen_fp.add(fp)
            if fp in kfp:
                self.known_hit.append(fp)
                continue
            d = os.path.join(REPLAYS, self.pid)
            os.makedirs(d, exist_ok=True)
            safe = hashlib.sha256(fp.encode()).hexdigest()[:12]
            path = os.path.join(d, "%s.json" % safe)
            replay = dict(replay)
            replay.setdefault("property", self.pid)
            replay.setdefault("fingerprint", fp)
            replay.setdefault("description", desc)
            replay.setdefault("kind", "failing-input" if has_input else "broken-obligation")
            replay.setdefault("rerun", "cd /verif && ./check replay %s" % path)
            with open(path, "w") as f:
                json.dump(replay, f, indent=1, ensure_ascii=False)
            reported.append((fp, path, has_input))
        # known findings: print a line for each *listed* finding (whether or not
        # this tier's sample happened to exercise it is recorded in evidence)
        for e in known:
            out_lines.append("KNOWN-FINDING: property=%s %s" % (self.pid, e.get("what", e["fingerprint"])))
        for fp, path, has_input in reported:
            line = "VIOLATION property=%s replay=%s" % (self.pid, path)
            if not has_input:
                line += " no-failing-input-found"
            out_lines.append(line)
        cov = {
            "obligations": self.obligations,
            "discharged": self.discharged,
            "checker_cmd": self.checker_cmd or "n/a",
            "trusted_base": self.trusted,
            "theorems": self.theorems,
            "axioms_used": self.axioms,
            "evaluations": self.evaluations,
            "distinct_nontrivial": len(self.distinct) + self.distinct_count_extra,
            "rule": self.rule,
            "samples": self.samples,
            "known_findings_hit": sorted(set(self.known_hit)),
        }
        if self.exhaustive is not None:
            cov["exhaustive"] = self.exhaustive
        cov.update(self.extra)
        ev = {
            "property_id": self.pid,
            "tier": self.tier,
            "seed": seed(),
            "level": self.level,
            "coverage": cov,
            "assumptions": self.assumptions,
            "wall_s": round(time.time() - self.t0, 2),
            "violations": len(reported),
        }
        with open(os.path.join(EVIDENCE, self.pid + ".json"), "w") as f:
            json.dump(ev, f, indent=1, ensure_ascii=False)
        for l in out_lines:
            print(l, flush=True)
        if reported:
            return 1
        print("OK property=%s tier=%s obligations=%d/%d evaluations=%d wall=%.1fs" % (
            self.pid, self.tier, self.discharged, self.obligations, self.evaluations, time.time() - self.t0), flush=True)
        return 0


def error_codes():
    """ddperror code table regenerated by the translator (lean/DDP/Generated/Codes.json)"""
    with open(os.path.join(LEAN, "DDP", "Generated", "Codes.json")) as f:
        return json.load(f)

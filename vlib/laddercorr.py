"""C01 — tie of the ladder model (lean/DDP/Impl/LadderParse.lean, table DDP.Ladder.ddpTbl computed from the regenerated
ladder of src/parser/expressions.go) to the real expression parser.

One abstract token sequence (operands, chain operator words, prefix operator words, parentheses) is given
  * to `ddpmodel ladder`  -> the tree `DDP.LadderParse.parseAll ddpTbl` builds, or `none`;
  * spelled as DDP (`Speichere <tokens> in x.`) to the real parser (harness `parse`, dump `shape`) -> the tree in the AST.
Three streams: trees printed with minimal parentheses (the spelling `parse_pp` is about; the tree is then known a third
time, from the generator), operand/operator sequences with random parentheses (the tree is whatever the parsers say), and
token soup (the model answers `none`; the real parser must then report a syntax error)."""
from collections import Counter

from . import corr
from .common import Rng

OPS = [("oder", "oder"), ("und", "und"), ("logisch oder", "logisch_oder"), ("logisch kontra", "logisch_kontra"),
       ("logisch und", "logisch_und"), ("plus", "plus"), ("minus", "minus"), ("verkettet mit", "verkettet_mit"),
       ("mal", "mal"), ("durch", "durch"), ("modulo", "modulo"),
       # operators with a closing word behind the right operand
       ("größer als", "größer_als"), ("kleiner als", "kleiner_als"), ("größer als, oder", "größer_als,_oder"), ("kleiner als, oder", "kleiner_als,_oder"),
       ("um", "links_verschiebung"), ("um", "rechts_verschiebung")]
CLOSER = {11: "ist", 12: "ist", 13: "ist", 14: "ist", 15: "Bit nach Links verschoben", 16: "Bit nach Rechts verschoben"}
NPLAIN = 11     # operators without a closing word (the ones random operand/operator sequences use)
UOPS = [("nicht", "nicht"), ("logisch nicht", "logisch_nicht"), ("der Betrag von", "Betrag"), ("die Länge von", "Länge")]
VARS = ["a", "b", "c", "d"]
# theorem chain_table_from_source pins the table of the model to these numbers
LV = [0, 1, 2, 3, 4, 8, 8, 8, 9, 9, 9, 6, 6, 6, 6, 7, 7]
N = 10
HEADER = "".join("Die Zahl %s ist %d.\n" % (v, i + 1) for i, v in enumerate(VARS)) + "Die Zahl x ist 0.\n"


def rand_tree(rng, depth):
    if depth == 0 or rng.chance(1, 4):
        return ("atom", rng.below(9))
    if rng.chance(1, 9):
        return ("xor", rand_tree(rng, depth - 1), rand_tree(rng, depth - 1))
    if rng.chance(1, 6):
        return ("ite", rand_tree(rng, depth - 1), rand_tree(rng, depth - 1), rand_tree(rng, depth - 1))
    if rng.chance(1, 5):
        return ("un", rng.below(len(UOPS)), rand_tree(rng, depth - 1))
    return ("bin", rng.below(len(OPS)), rand_tree(rng, depth - 1), rand_tree(rng, depth - 1))


def pp(e, k, rng=None):
    """DDP.LadderParse.pp (k = chain rung asked for) / ppI (k = -1: a whole expression) / ppX (k = -2: value operand of a
    conditional expression); with rng: redundant parentheses now and then"""
    if e[0] == "xor":
        body, need = ["x"] + pp(e[1], 0, rng) + ["y"] + pp(e[2], 0, rng), k >= 0
        if need or (rng is not None and rng.chance(1, 7)):
            return ["("] + body + [")"]
        return body
    if e[0] == "ite":
        body, need = pp(e[1], -2, rng) + ["f"] + pp(e[2], -1, rng) + ["s"] + pp(e[3], -1, rng), k != -1
        if need or (rng is not None and rng.chance(1, 7)):
            return ["("] + body + [")"]
        return body
    if e[0] == "atom":
        body, need = ["a%d" % e[1]], False
    elif e[0] == "un":
        body, need = ["u%d" % e[1]] + pp(e[2], N, rng), False
    else:
        lv = LV[e[1]]
        body, need = pp(e[2], lv, rng) + ["o%d" % e[1]] + pp(e[3], lv + 1, rng) + (["c%d" % e[1]] if e[1] in CLOSER else []), lv < k       # k < 0: a whole expression, never parenthesised
    if need or (rng is not None and rng.chance(1, 7)):
        return ["("] + body + [")"]
    return body


def show(e):
    if e[0] == "ite":
        return "(ite %s %s %s)" % (show(e[1]), show(e[2]), show(e[3]))
    if e[0] == "xor":
        return "(xor %s %s)" % (show(e[1]), show(e[2]))
    if e[0] == "atom":
        return "(atom %d)" % e[1]
    if e[0] == "un":
        return "(un %d %s)" % (e[1], show(e[2]))
    return "(bin %d %s %s)" % (e[1], show(e[2]), show(e[3]))


def raw_sequence(rng):
    """operand (op operand)* with prefix operators and balanced parentheses at random places"""
    n = 1 + rng.below(7)
    toks, open_ = [], 0
    for i in range(n):
        if i:
            toks.append("o%d" % rng.below(NPLAIN))
        while rng.chance(1, 5):
            toks.append("u%d" % rng.below(len(UOPS)))
        while rng.chance(1, 4):
            toks.append("(")
            open_ += 1
            while rng.chance(1, 6):
                toks.append("u%d" % rng.below(len(UOPS)))
        toks.append("a%d" % rng.below(9))
        if rng.chance(1, 9):      # a conditional expression starts here; its two further operands are atoms or groups of their own
            toks += ["f", "a%d" % rng.below(9), "s"] if rng.chance(2, 3) else ["f", "(", "a%d" % rng.below(9), "o%d" % rng.below(NPLAIN), "a%d" % rng.below(9), ")", "s"]
            toks.append("a%d" % rng.below(9))
        if rng.chance(1, 14):     # an `entweder` group of its own as operand
            toks += ["o%d" % rng.below(NPLAIN), "(", "x", "a%d" % rng.below(9), "o%d" % rng.below(NPLAIN), "a%d" % rng.below(9), "y", "a%d" % rng.below(9), ")"]
        while open_ and rng.chance(1, 3):
            toks.append(")")
            open_ -= 1
    toks += [")"] * open_
    return toks


def soup(rng):
    alphabet = ["a1", "a5", "o5", "o8", "o1", "u0", "u2", "(", ")", "f", "s", "x", "y", "o11", "c11", "o15", "c15"]
    return [rng.choice(alphabet) for _ in range(1 + rng.below(6))]


def spell(toks):
    out = []
    for t in toks:
        if t in "()":
            out.append(t)
        elif t == "f":
            out.append(", falls")
        elif t == "s":
            out.append(", ansonsten")
        elif t == "x":
            out.append("entweder")
        elif t == "y":
            out.append(", oder")
        elif t[0] == "a":
            n = int(t[1:])
            out.append(VARS[n] if n < len(VARS) else str(n))
        elif t[0] == "o":
            out.append(OPS[int(t[1:])][0])
        elif t[0] == "c":
            out.append(CLOSER[int(t[1:])])
        else:
            out.append(UOPS[int(t[1:])][0])
    return " ".join(out).replace("( ", "(").replace(" )", ")").replace(" ,", ",")


def real_to_model(s):
    """the harness' s-expression in the model's vocabulary"""
    for i, (_, name) in sorted(enumerate(OPS), key=lambda kv: -len(kv[1][1])):
        s = s.replace("(bin %s " % name, "(bin %d " % i)
    for i, (_, name) in sorted(enumerate(UOPS), key=lambda kv: -len(kv[1][1])):
        s = s.replace("(un %s " % name, "(un %d " % i)
    for i, v in enumerate(VARS):
        s = s.replace("(var %s)" % v, "(atom %d)" % i)
    return s.replace("(int ", "(atom ").replace("(ter falls ", "(ite ").replace("(bin entweder_..._oder ", "(xor ")


def run(res, harness, model, ddp, seed, n_trees, n_raw, n_soup):
    rng = Rng(seed + 4242)
    cases = []      # (stream, tokens, expected tree or None)
    for i in range(n_trees):
        e = rand_tree(rng, 1 + rng.below(5))
        cases.append(("minimal", pp(e, -1), show(e)))
        if i % 3 == 0:
            cases.append(("redundant", pp(e, -1, rng), show(e)))
    for _ in range(n_raw):
        cases.append(("raw", raw_sequence(rng), None))
    for _ in range(n_soup):
        cases.append(("soup", soup(rng), None))
    manswers = corr.run_lines(model, ["ladder " + " ".join(t) for _, t, _ in cases])
    # well-formed sequences share programs (20 assignments each); anything the model rejects gets a program of its own,
    # so that error recovery in one statement cannot disturb the next
    batches, cur = [], []
    for idx, ((stream, toks, _), m) in enumerate(zip(cases, manswers)):
        if m == "none" or m == "bad-request":
            batches.append([idx])
        else:
            cur.append(idx)
            if len(cur) == 20:
                batches.append(cur)
                cur = []
    if cur:
        batches.append(cur)
    reqs = []
    for b in batches:
        src = HEADER + "".join("Speichere %s in x.\n" % spell(cases[i][1]) for i in b)
        reqs.append({"files": {"main.ddp": src}, "main": "main.ddp", "dump": ["shape"]})
    resps = corr.parse_many(harness, reqs, ddp)
    stats = Counter()
    for b, rq, rp in zip(batches, reqs, resps):
        shapes = (rp.get("extra") or {}).get("shape") or []
        for pos, i in enumerate(b):
            stream, toks, want = cases[i]
            m = manswers[i]
            res.evaluations += 1
            stats[stream + (":tree" if m.startswith("(") else ":" + m)] += 1
            replay = {"tokens": toks, "ddp": "Speichere %s in x." % spell(toks), "model": m, "program": rq["files"]["main.ddp"]}
            if m == "bad-request" or rp.get("result") != "ok":
                res.violation("ladder-machinery", "ladder tie: model answered %s, parser harness %s" % (m, rp.get("result")),
                              dict(replay, response=rp), has_input=False)
                continue
            if want is not None and m != want:
                # the model disagrees with parse_pp's statement: impossible unless model or generator changed
                res.violation("ladder-model-vs-theorem", "the ladder model does not read the minimal-parentheses spelling back as the tree (parse_pp)",
                              dict(replay, expected=want), has_input=False)
                continue
            if m == "none":
                if not rp.get("diags"):
                    res.violation("ladder-accepts:" + " ".join(toks)[:40],
                                  "the parser accepts `%s` without a diagnostic; by the ladder it is not an expression" % spell(toks),
                                  dict(replay, response=rp))
                continue
            real = real_to_model(shapes[pos]) if pos < len(shapes) else "<missing>"
            replay["implementation"] = real
            if len(shapes) != len(b):
                res.violation("ladder-shape-count", "number of assignments in the tree differs from the number written", dict(replay, response=rp), has_input=False)
                break
            if real != m:
                res.violation("ladder-tree:" + stream,
                              "`%s`: the parser builds %s, the ladder of expressions.go (model over the regenerated table) gives %s" % (spell(toks), real, m),
                              replay)
            else:
                res.nontrivial("ladder:" + m[:60])
    return dict(stats)

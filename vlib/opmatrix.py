"""The operator x operand-type matrix of the core language with boundary operands, as programs
for the evaluator correspondence (C01, C11)."""
import itertools

from . import gen
from .gen import bits_of_float

Z_POOL = [0, 1, -1, 2, 3, 7, -7, 10, 63, 64, 255, 256, -256, 2 ** 31 - 1, 2 ** 31, -(2 ** 31), 2 ** 32 + 5, 2 ** 53 + 1,
          2 ** 62, 2 ** 63 - 1, -(2 ** 63) + 1, -(2 ** 63)]
K_POOL = [0.0, 1.0, -1.0, 0.5, -0.5, 1.5, 2.5, -2.5, 0.1, 3.99, -3.99, 255.0, 256.5, 1e15, -1e15, 1e18, 1e300, 1e-300, 123456.789]
B_POOL = [0, 1, 2, 7, 127, 128, 200, 255]
C_POOL = [0x61, 0x41, 0x30, 0xE4, 0x20AC, 0x1F600]
T_POOL = ["", "a", "abc", "äöü", "x€y😀", "12", "-45", "  7x"]


def lit(t, v):
    if t == "Z":
        return ("int", v)
    if t == "K":
        b = bits_of_float(abs(v))
        return ("float", b + 2 ** 63 if (v < 0 or str(v).startswith("-")) else b)
    if t == "B":
        return ("cast", ("int", v), "B")
    if t == "W":
        return ("bool", v)
    if t == "C":
        return ("char", v)
    if t == "T":
        return ("text", [ord(c) for c in v])
    if gen.is_list(t):
        return ("list", t[1], [lit(t[1], x) for x in v])
    raise ValueError(t)


def pool(t):
    if t == "Z":
        return Z_POOL
    if t == "K":
        return K_POOL
    if t == "B":
        return B_POOL
    if t == "W":
        return [True, False]
    if t == "C":
        return C_POOL
    if t == "T":
        return T_POOL
    if gen.is_list(t):
        p = pool(t[1])
        q = lambda i: p[i % len(p)]
        # among them lists of one length that differ only in their last, only in their first element
        return [[], [q(0)], [q(1), q(2)], [q(2), q(1), q(0)], [q(2), q(1), q(3)], [q(4), q(1), q(0)], [q(i) for i in range(5)], [q(i) for i in range(4)] + [q(6)]]
    raise ValueError(t)


NUM = ["Z", "K", "B"]
INTS = ["Z", "B"]
LISTS = [("L", p) for p in gen.PRIM]
ALL = gen.PRIM + LISTS


def result_type(op, ts):
    """result type as the checker assigns it (typechecker.go), for printing"""
    a = ts[0]
    b = ts[1] if len(ts) > 1 else None
    if op in ("plus", "minus", "mult"):
        if a == "K" or b == "K":
            return "K"
        return "B" if (a, b) == ("B", "B") else "Z"
    if op in ("div", "pow", "log"):
        return "K"
    if op in ("mod", "logicAnd", "logicOr", "logicXor"):
        return "B" if (a, b) == ("B", "B") else "Z"
    if op in ("shl", "shr"):
        return a
    if op in ("abs", "negate"):
        return "Z" if a == "B" else a
    if op == "logicNot":
        return a
    if op == "len":
        return "Z"
    if op in ("eq", "ne", "lt", "gt", "le", "ge", "and", "or", "xor", "not", "between"):
        return "W"
    if op == "concat":
        if gen.is_list(a):
            return a
        if gen.is_list(b):
            return b
        if "T" in (a, b):
            return "T"
        return ("L", a)
    if op == "index":
        return "C" if a == "T" else a[1]
    if op in ("slice", "sliceTo", "sliceFrom"):
        return a
    if op == "falls":
        return a
    raise ValueError(op)


def cells():
    """yields (label, operand types, builder(operands) -> expr, result type)"""
    for op in ("abs", "negate"):
        for a in NUM:
            yield op, (a,), (lambda x, op=op: ("un", op, x[0])), result_type(op, (a,))
    for a in INTS:
        yield "logicNot", (a,), (lambda x: ("un", "logicNot", x[0])), a
    yield "not", ("W",), (lambda x: ("un", "not", x[0])), "W"
    for a in ["T"] + LISTS:
        yield "len", (a,), (lambda x: ("un", "len", x[0])), "Z"
    for op in ("plus", "minus", "mult", "div", "lt", "gt", "le", "ge"):
        for a in NUM:
            for b in NUM:
                yield op, (a, b), (lambda x, op=op: ("bin", op, x[0], x[1])), result_type(op, (a, b))
    for op in ("mod", "logicAnd", "logicOr", "logicXor", "shl", "shr"):
        for a in INTS:
            for b in INTS:
                yield op, (a, b), (lambda x, op=op: ("bin", op, x[0], x[1])), result_type(op, (a, b))
    for op in ("and", "or", "xor"):
        yield op, ("W", "W"), (lambda x, op=op: ("bin", op, x[0], x[1])), "W"
    for op in ("eq", "ne"):
        for a in ALL:
            yield op, (a, a), (lambda x, op=op: ("bin", op, x[0], x[1])), "W"
    for a, b in [("T", "T"), ("T", "C"), ("C", "T"), ("C", "C")]:
        yield "concat", (a, b), (lambda x: ("bin", "concat", x[0], x[1])), result_type("concat", (a, b))
    for p in gen.PRIM:
        lt = ("L", p)
        for a, b in [(lt, lt), (lt, p), (p, lt)] + ([(p, p)] if p != "T" else []):
            yield "concat", (a, b), (lambda x: ("bin", "concat", x[0], x[1])), result_type("concat", (a, b))
    for a in ["T"] + LISTS:
        for it in INTS:
            yield "index", (a, it), (lambda x: ("bin", "index", x[0], x[1])), result_type("index", (a,))
            yield "sliceTo", (a, it), (lambda x: ("bin", "sliceTo", x[0], x[1])), a
            yield "sliceFrom", (a, it), (lambda x: ("bin", "sliceFrom", x[0], x[1])), a
        yield "slice", (a, "Z", "Z"), (lambda x: ("ter", "slice", x[0], x[1], x[2])), a
        yield "slice", (a, "B", "Z"), (lambda x: ("ter", "slice", x[0], x[1], x[2])), a
    for a in NUM:
        for b in NUM:
            for c in NUM:
                yield "between", (a, b, c), (lambda x: ("ter", "between", x[0], x[1], x[2])), "W"
    for a in ALL:
        yield "falls", (a, "W", a), (lambda x: ("ter", "falls", x[0], x[1], x[2])), a
    # conversions the checker admits (typechecker.go VisitCastExpr)
    casts = {"Z": gen.PRIM, "K": ["T", "Z", "K", "B"], "B": ["Z", "K", "B"], "W": ["Z", "W", "B"], "C": ["Z", "C", "B"], "T": gen.PRIM}
    for target, sources in casts.items():
        for src in sources:
            if (src, target) == ("T", "K"):
                continue        # strtod: libc, not modelled
            yield "cast:" + target, (src,), (lambda x, target=target: ("cast", x[0], target)), target
    for p in gen.PRIM:
        yield "cast:L", (p,), (lambda x, p=p: ("cast", x[0], ("L", p))), ("L", p)
    # implicit numeric conversion of initialisers
    for a in NUM:
        for b in NUM:
            yield "init:" + a, (b,), (lambda x: x[0]), a


INDEX_POOL = [1, 2, 3, 0, -1, 5, 6, 2 ** 63 - 1, -(2 ** 63)]


def operand_tuples(op, ts, rng, k):
    """k operand tuples for a cell: boundary pools, index-like operands from a small pool"""
    pools = []
    for i, t in enumerate(ts):
        if op in ("index", "sliceTo", "sliceFrom", "slice") and i > 0:
            pools.append([v for v in (INDEX_POOL if t == "Z" else [0, 1, 2, 3, 5, 255])])
        elif op in ("shl", "shr") and i == 1:
            pools.append([0, 1, 7, 8, 31, 63, 64, -1] if t == "Z" else [0, 1, 7, 8, 63, 200])
        else:
            pools.append(pool(t))
    total = 1
    for p in pools:
        total *= len(p)
    if total <= k:
        return list(itertools.product(*pools))
    seen, out = set(), []
    if op in ("eq", "ne") and gen.is_list(ts[0]):
        # equality of lists is decided by the elements: every pair of different lists of one length (they differ in the
        # first, in a middle or only in the last element), in both orders, whatever k is
        for x in pools[0]:
            for y in pools[1]:
                if len(x) == len(y) and x != y:
                    seen.add(repr((x, y)))
                    out.append((x, y))
        k += len(out)
    # always the "diagonal" extremes first
    for j in range(min(k // 2, max(len(p) for p in pools))):
        tup = tuple(p[(len(p) - 1 - j) % len(p)] for p in pools)
        if repr(tup) not in seen:
            seen.add(repr(tup))
            out.append(tup)
    tries = 0
    while len(out) < k and tries < 20 * k:
        tries += 1
        tup = tuple(p[rng.below(len(p))] for p in pools)
        key = repr(tup)
        if key not in seen:
            seen.add(key)
            out.append(tup)
    return out


def show_stmts(e, rt, fresh):
    """statements that print the value of expression `e` of type rt on one line"""
    if rt in gen.PRIM:
        return [("println", e)]
    name = fresh()
    el = rt[1]
    x = fresh()
    return [("decl", rt, name, e), ("print", ("text", [0x5B])),
            ("foreach", el, x, None, ("var", name), [("print", ("var", x)), ("print", ("text", [0x7C]))]),
            ("println", ("text", [0x5D]))]


def cell_programs(rng, per_cell, batch=25):
    """returns (single, meta): one tiny program per (cell, operand tuple) for the oracle's first pass"""
    out = []
    n = [0]

    def fresh():
        n[0] += 1
        return "m%d" % n[0]

    for op, ts, build, rt in cells():
        for tup in operand_tuples(op, ts, rng, per_cell):
            ops = [lit(t, v) for t, v in zip(ts, tup)]
            e = build(ops)
            if op.startswith("init:"):
                name = fresh()
                stmts = [("decl", rt, name, e), ("println", ("var", name))]
            else:
                stmts = show_stmts(e, rt, fresh)
            out.append((op, ts, tup, stmts))
    return out


def program_of(stmts):
    return dict(structs=[], globals=[], funcs=[], main=stmts, types={})

"""Simulation of the iterative quicksort of Duden/Sortierung.ddp (median of three, explicit stack of pending ranges, right part
processed first): used to choose inputs by the depth the stack of pending ranges reaches (its initial capacity is 50 ranges)."""
import random
def qsort_depth(lst):
    a=[None]+list(lst)   # 1-based
    stack=[]; maxd=0
    def impl(li,re):
        if re<=li: return li
        n=re-li+1
        if n==2:
            if a[li]>a[re]: a[li],a[re]=a[re],a[li]
            return li
        mi=li+int(n/2)
        # sort three: a,b,c = li,mi,re
        if a[li]>a[re]: a[li],a[re]=a[re],a[li]
        if a[li]>a[mi]: a[li],a[mi]=a[mi],a[li]
        if a[mi]>a[re]: a[mi],a[re]=a[re],a[mi]
        if n==3: return mi
        a[mi],a[re]=a[re],a[mi]
        pivot=a[re]; i=li-1; j=re
        while True:
            while True:
                i+=1
                if not a[i]<pivot: break
            while True:
                j-=1
                if not (j>=li and a[j]>pivot): break
            if i>=j: break
            a[i],a[j]=a[j],a[i]
        a[i],a[re]=a[re],a[i]
        return i
    stack.append((1,len(lst)))
    while stack:
        maxd=max(maxd,len(stack))
        li,re=stack.pop()
        i=impl(li,re)
        if i-1>li: stack.append((li,i-1))
        if i+1<re: stack.append((i+1,re))
        maxd=max(maxd,len(stack))
    return maxd, a[1:]


def blocks(n):
    """a permutation on which the pivot is the third smallest element again and again: one pending range per three elements"""
    l, k = [], 0
    while len(l) < n - 1:
        l += [3 * k + 2, 3 * k + 1, 3 * k + 6]
        k += 1
    return l[:n - 1] + [3]


def stress_lists():
    """(shape, list, stack depth reached)"""
    out = []
    for n in (60, 151, 154, 166, 200, 340):
        shapes = [("blocks", blocks(n)), ("blocks-negated", [-x for x in blocks(n)]), ("blocks-duplicates", [x // 2 for x in blocks(n)])]
        if n in (60, 200):
            shapes += [("sorted", list(range(n))), ("reversed", list(range(n, 0, -1))), ("organ-pipe", list(range(0, n, 2)) + list(range(n - 1, 0, -2))),
                       ("three-values", [i % 3 for i in range(n)]), ("sawtooth", [(i * 7919) % n for i in range(n)])]
        for name, l in shapes:
            d, s = qsort_depth(l)
            assert s == sorted(l)
            out.append(("%s-%d" % (name, n), l, d))
    return out

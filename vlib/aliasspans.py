"""Generated alias patterns and call sites for the argument-span correspondence (C09):
the real parser's FuncCall.Args (source range per parameter name, dumper `calls` of the harness)
against DDP.AliasMatch.matchPat (`ddpmodel aliasmatch`)."""

HEAD = 'Binde "Duden/Ausgabe" ein.\n'
IDENT_WORDS = ["nimm", "packe", "lege", "hole", "drehe", "tausche"]
KEY_WORDS = ["von", "mit", "zu", "und", "in", "aus", "bis"]      # keywords: class `other`
TYPES = {"Z": "Zahl", "T": "Text", "W": "Wahrheitswert"}
KEYWORDS = set(KEY_WORDS) | {"plus", "minus", "mal", "verkettet", "nicht", "wahr", "falsch", "oder", "ist", "gleich"}


class Toks:
    """a token list with columns (all ASCII, one line)"""
    def __init__(self):
        self.t = []     # (text, kind)

    def add(self, text, kind=None):
        if kind is None:
            if text == "(":
                kind = "L"
            elif text == ")":
                kind = "R"
            elif text == "-":
                kind = "m"
            elif text in ("wahr", "falsch") or text[0] in "\"'":
                kind = "l"
            elif text in KEYWORDS or text in ".,:":
                kind = "o"
            else:
                kind = "n"      # identifiers, numbers
        self.t.append((text, kind))
        return self

    def extend(self, other):
        self.t += other.t
        return self

    def render(self):
        """(text, [start column (0-based) of each token], [length])"""
        s, cols = "", []
        for i, (text, kind) in enumerate(self.t):
            prev = self.t[i - 1][0] if i else None
            if i and not (prev == "(" or text in (")", ".", ",") or (prev == "-" and self.t[i - 1][1] == "m")):
                s += " "
            cols.append(len(s))
            s += text
        return s, cols


def ids_of(toks, table):
    out = []
    for text, kind in toks:
        key = (kind if kind in "LRm" else "x", text if kind not in "LRm" else "")
        out.append("%s.%d" % (kind, table.setdefault(key, len(table))))
    return out


class Fn:
    def __init__(self, idx, rng):
        self.name = "fn%d" % idx
        self.head = "kopf%d" % idx                     # a word no other function uses
        n = 1 + rng.below(3)
        self.params = [("p%d" % (j + 1), "ZTW"[rng.below(3)] if rng.below(3) == 0 else "Z") for j in range(n)]
        # the pattern: head, then params in a random order, words sprinkled in between (possibly none: adjacent params)
        order = rng.shuffle(list(range(n)))
        self.pattern = [("w", self.head)]
        for j in order:
            if rng.below(100) < 65:
                self.pattern.append(("w", (IDENT_WORDS if rng.below(2) else KEY_WORDS)[rng.below(6)]))
            self.pattern.append(("p", j))
        if rng.below(100) < 30:
            self.pattern.append(("w", KEY_WORDS[rng.below(len(KEY_WORDS))]))
        self.ret = "Z"

    def source(self):
        names = " und ".join(p for p, _ in self.params) if len(self.params) <= 2 else ", ".join(p for p, _ in self.params[:-1]) + " und " + self.params[-1][0]
        types = " und ".join(TYPES[t] for _, t in self.params) if len(self.params) <= 2 else ", ".join(TYPES[t] for _, t in self.params[:-1]) + " und " + TYPES[self.params[-1][1]]
        head = ("mit dem Parameter %s vom Typ %s" if len(self.params) == 1 else "mit den Parametern %s vom Typ %s") % (names, types)
        alias = " ".join(x if k == "w" else "<%s>" % self.params[x][0] for k, x in self.pattern)
        zs = [p for p, t in self.params if t == "Z"]
        return ("Die Funktion %s %s, gibt eine Zahl zurück, macht:\n\tGib %s zurück.\nUnd kann so benutzt werden:\n\t\"%s\"\n\n"
                % (self.name, head, zs[0] if zs else "0", alias))


def gen_arg(rng, ty, fns, depth):
    """tokens of an argument of type ty, and the nested calls inside it as (fn, Toks of the call, offset in the argument)"""
    t = Toks()
    nested = []
    c = rng.below(8)
    if ty == "Z":
        if c == 0:
            t.add(str(rng.below(90)))
        elif c == 1:
            t.add("-").add(str(1 + rng.below(90)))
        elif c == 2:
            t.add("zv")
        elif c == 3:
            t.add("-").add("zv")
        elif c == 4:
            t.add("(").add(str(rng.below(9))).add("plus").add("zv").add(")")
        elif c == 5:
            t.add("(").add("(").add("zv").add(")").add(")")
        elif c == 6 and depth > 0 and fns:
            f = fns[rng.below(len(fns))]
            call, inner = gen_call(rng, f, fns, depth - 1)
            t.add("(")
            nested.append((f, call, 1))
            nested += [(g, cl, off + 1) for g, cl, off in inner]
            t.extend(call)
            t.add(")")
        else:
            t.add("(").add("-").add("(").add("zv").add("minus").add("1").add(")").add(")")
    elif ty == "T":
        if c < 3:
            t.add('"ab"')
        elif c < 5:
            t.add("tv")
        else:
            t.add("(").add('"a"').add("verkettet").add("mit").add("tv").add(")")
    else:
        if c < 2:
            t.add("wahr")
        elif c < 4:
            t.add("falsch")
        elif c < 6:
            t.add("wv")
        else:
            t.add("(").add("nicht").add("wv").add(")")
    return t, nested


def gen_call(rng, f, fns, depth=1):
    """Toks of a call of f; spans[(param index)] = (start, len); nested calls with their offset"""
    t = Toks()
    nested = []
    f_spans = {}
    for k, x in f.pattern:
        if k == "w":
            t.add(x)
        else:
            a, inner = gen_arg(rng, f.params[x][1], fns, depth)
            f_spans[x] = (len(t.t), len(a.t))
            nested += [(g, cl, off + len(t.t)) for g, cl, off in inner]
            t.extend(a)
    t.spans = f_spans
    return t, nested


def pattern_req(f, table):
    out = []
    for k, x in f.pattern:
        if k == "w":
            kind = "o" if x in KEYWORDS else "n"
            out.append("w%s.%d" % (kind, table.setdefault(("x", x), len(table))))
        else:
            out.append("p%d" % x)
    return ",".join(out)


# call sites the callback must refuse for the placeholder (then no call of that function is parsed there)
def broken_args():
    yield "negate-then-literal", Toks().add("-").add('"ab"')
    yield "negate-then-paren", Toks().add("-").add("(").add("1").add(")")
    yield "negate-then-bool", Toks().add("-").add("wahr")
    yield "keyword", Toks().add("plus")
    yield "closing-paren", Toks().add(")")
    yield "unbalanced", Toks().add("(").add("1").add("plus").add("(").add("2").add(")")

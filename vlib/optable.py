"""The operator x operand-class table of DDP as programs: every unary, binary, ternary and
cast operator applied to every tuple of operand type classes, in value contexts."""
import itertools

# operand classes: name -> (declaration lines, variable expression, source type name, gender, IR kind)
CLASSES = {
    "Zahl": ("Die Zahl z ist 7.", "z", "Zahl", "f"),
    "Kommazahl": ("Die Kommazahl k ist 2,5.", "k", "Kommazahl", "f"),
    "Byte": ("Der Byte b ist 200.", "b", "Byte", "m"),
    "Wahrheitswert": ("Der Wahrheitswert w ist wahr.", "w", "Wahrheitswert", "m"),
    "Buchstabe": ("Der Buchstabe c ist 'x'.", "c", "Buchstabe", "m"),
    "Text": ('Der Text t ist "abc".', "t", "Text", "m"),
    "Zahlen Liste": ("Die Zahlen Liste zl ist eine Liste, die aus 1, 2, 3 besteht.", "zl", "Zahlen Liste", "f"),
    "Kommazahlen Liste": ("Die Kommazahlen Liste kl ist eine Liste, die aus 1,5, 2,5 besteht.", "kl", "Kommazahlen Liste", "f"),
    "Byte Liste": ("Die Byte Liste bl ist eine Liste, die aus b, b besteht.", "bl", "Byte Liste", "f"),
    "Wahrheitswert Liste": ("Die Wahrheitswert Liste wl ist eine Liste, die aus wahr, falsch besteht.", "wl", "Wahrheitswert Liste", "f"),
    "Buchstaben Liste": ("Die Buchstaben Liste cl ist eine Liste, die aus 'a', 'b' besteht.", "cl", "Buchstaben Liste", "f"),
    "Text Liste": ('Die Text Liste tl ist eine Liste, die aus "a", "b" besteht.', "tl", "Text Liste", "f"),
    "Punkt": ("Der Punkt p ist der Nullpunkt.", "p", "Punkt", "m"),
    "Punkt Liste": ("Die Punkt Liste pl ist eine Liste, die aus p, p besteht.", "pl", "Punkt Liste", "f"),
    "Variable": ("Die Variable v ist 5.", "v", "Variable", "f"),
    "Ganzzahl": ("Die Ganzzahl az ist 9.", "az", "Ganzzahl", "f"),       # type alias of Zahl
    "Meter": ("Die Meter dz ist 3 als Meter.", "dz", "Meter", "f"),     # type definition of Zahl
    "Name": ('Die Name dn ist "n" als Name.', "dn", "Name", "f"),       # type definition of Text
    "Reihe": ("Die Reihe dr ist zl als Reihe.", "dr", "Reihe", "f"),    # type definition of a list
}
# the same classes as type terms of the Lean model (DDP.Types.Ty syntax of the model driver)
TERM = {"Zahl": "Z", "Kommazahl": "K", "Byte": "B", "Wahrheitswert": "W", "Buchstabe": "C", "Text": "T",
        "Zahlen Liste": "L(Z)", "Kommazahlen Liste": "L(K)", "Byte Liste": "L(B)", "Wahrheitswert Liste": "L(W)",
        "Buchstaben Liste": "L(C)", "Text Liste": "L(T)", "Punkt": "S1", "Punkt Liste": "L(S1)", "Variable": "V",
        "Ganzzahl": "A(Z)", "Meter": "D1(Z)", "Name": "D2(T)", "Reihe": "D3(L(Z))"}
NAME_OF_TERM = {v: k for k, v in TERM.items()}
PLURAL_LIST = {"Z": "Zahlen Liste", "K": "Kommazahlen Liste", "B": "Byte Liste", "W": "Wahrheitswert Liste",
               "C": "Buchstaben Liste", "T": "Text Liste"}


def term_to_name(t):
    """how the implementation prints (Type.String()) the type the model denotes by `t`"""
    if t in NAME_OF_TERM and not t.startswith("L("):
        return NAME_OF_TERM[t]
    if t.startswith("L("):
        inner = t[2:-1]
        if inner in PLURAL_LIST:
            return PLURAL_LIST[inner]
        return term_to_name(inner) + " Liste"
    return t


def source_type_name(printed):
    """source spelling of a printed type name"""
    return {"Variable Liste": "Variablen Liste"}.get(printed, printed)
PRELUDE = ('Wir nennen die Kombination aus\n\tder Zahl x mit Standardwert 0,\neinen Punkt, und erstellen sie so:\n\t"der Nullpunkt"\n\n'
           "Wir nennen eine Zahl auch eine Ganzzahl.\nWir definieren eine Meter als eine Zahl.\n"
           "Wir definieren eine Name als einen Text.\nWir definieren eine Reihe als eine Zahlen Liste.\n")
ORDER = ["Zahl", "Kommazahl", "Byte", "Wahrheitswert", "Buchstabe", "Text", "Zahlen Liste", "Kommazahlen Liste", "Byte Liste",
         "Wahrheitswert Liste", "Buchstaben Liste", "Text Liste", "Punkt", "Punkt Liste", "Variable", "Ganzzahl", "Meter",
         "Name", "Reihe"]
PRIMS = ["Zahl", "Kommazahl", "Byte", "Wahrheitswert", "Buchstabe", "Text"]

UNARY = {
    "UN_ABS": "der Betrag von {a}",
    "UN_NEGATE": "-{a}",
    "UN_NOT": "nicht {a}",
    "UN_LOGIC_NOT": "logisch nicht {a}",
    "UN_LEN": "die Länge von {a}",
}
BINARY = {
    "BIN_AND": "{a} und {b}",
    "BIN_OR": "{a} oder {b}",
    "BIN_XOR": "entweder {a}, oder {b}",
    "BIN_CONCAT": "{a} verkettet mit {b}",
    "BIN_PLUS": "{a} plus {b}",
    "BIN_MINUS": "{a} minus {b}",
    "BIN_MULT": "{a} mal {b}",
    "BIN_DIV": "{a} durch {b}",
    "BIN_INDEX": "{a} an der Stelle {b}",
    "BIN_POW": "{a} hoch {b}",
    "BIN_LOG": "der Logarithmus von {a} zur Basis {b}",
    "BIN_LOGIC_AND": "{a} logisch und {b}",
    "BIN_LOGIC_OR": "{a} logisch oder {b}",
    "BIN_LOGIC_XOR": "{a} logisch kontra {b}",
    "BIN_MOD": "{a} modulo {b}",
    "BIN_LEFT_SHIFT": "{a} um {b} Bit nach Links verschoben",
    "BIN_RIGHT_SHIFT": "{a} um {b} Bit nach Rechts verschoben",
    "BIN_EQUAL": "{a} gleich {b} ist",
    "BIN_UNEQUAL": "{a} ungleich {b} ist",
    "BIN_LESS": "{a} kleiner als {b} ist",
    "BIN_GREATER": "{a} größer als {b} ist",
    "BIN_LESS_EQ": "{a} kleiner als, oder {b} ist",
    "BIN_GREATER_EQ": "{a} größer als, oder {b} ist",
    "BIN_SLICE_TO": "{a} bis zum {b}. Element",
    "BIN_SLICE_FROM": "{a} ab dem {b}. Element",
}
TERNARY = {
    "TER_SLICE": "{a} im Bereich von {b} bis {c}",
    "TER_BETWEEN": "{a} zwischen {b} und {c} ist",
    "TER_FALLS": "{a}, falls {b}, ansonsten {c}",
}


def decls(classes):
    need = []
    for c in classes:
        if c in ("Byte Liste",) and "Byte" not in need:
            need.append("Byte")
        if c == "Punkt Liste" and "Punkt" not in need:
            need.append("Punkt")
        if c == "Reihe" and "Zahlen Liste" not in need:
            need.append("Zahlen Liste")
        if c not in need:
            need.append(c)
    return "\n".join(CLASSES[c][0] for c in need) + "\n"


def operand(c):
    return "(" + CLASSES[c][1] + ")"


def cells(which=("unary", "binary", "ternary", "cast"), classes=ORDER):
    """yields (opname, operand classes tuple, expression source)"""
    if "unary" in which:
        for op, pat in UNARY.items():
            for a in classes:
                yield op, (a,), pat.format(a=operand(a))
    if "binary" in which:
        for op, pat in BINARY.items():
            for a in classes:
                for b in classes:
                    yield op, (a, b), pat.format(a=operand(a), b=operand(b))
    if "ternary" in which:
        small = [c for c in classes if c in PRIMS or c in ("Zahlen Liste", "Text Liste", "Punkt", "Variable")]
        for op, pat in TERNARY.items():
            for a in small:
                for b in small:
                    for c in small:
                        yield op, (a, b, c), pat.format(a=operand(a), b=operand(b), c=operand(c))
    if "cast" in which:
        for a in classes:
            for t in classes:
                yield "CAST", (a, t), "%s als %s" % (operand(a), CLASSES[t][2])


def probe_program(classes, expr):
    """phase 1: is the cell accepted, and which type does the checker assign?"""
    used = [c for c in classes if c in CLASSES]
    return PRELUDE + decls(used) + "Die Variable r ist %s.\n" % expr


TYPE_GENDER = {CLASSES[c][2]: CLASSES[c][3] for c in CLASSES}


def context_programs(classes, expr, tname):
    """phase 2: the accepted cell in every value context, typed by the checker's result type"""
    used = [c for c in classes if c in CLASSES]
    head = PRELUDE + decls(used)
    tname = source_type_name(tname)
    g = TYPE_GENDER.get(tname, "f")
    art = {"f": "Die", "m": "Der", "n": "Das"}[g]
    ein = {"f": "eine", "m": "einen", "n": "ein"}[g]
    out = {}
    out["init"] = head + "%s %s r ist %s.\n" % (art, tname, expr)
    out["variable"] = head + "Die Variable r ist %s.\n" % expr
    out["assign"] = head + "%s %s r ist der Standardwert von %s %s.\nSpeichere %s in r.\n" % (
        art, tname, "einer" if g == "f" else "einem", tname, expr)
    par = tname
    out["argument"] = head + ("Die Funktion nimm mit dem Parameter q vom Typ %s, gibt nichts zurück, macht:\n\tDie Zahl u ist 1.\n"
                              "Und kann so benutzt werden:\n\t\"Nimm <q>\"\n\nNimm (%s).\n") % (par, expr)
    out["return"] = head + ("Die Funktion liefere mit dem Parameter u vom Typ Zahl, gibt %s %s zurück, macht:\n\tGib %s zurück.\n"
                            "Und kann so benutzt werden:\n\t\"liefere <u>\"\n\n%s %s r ist (liefere 1).\n") % (ein, tname, expr, art, tname)
    if not tname.endswith("Liste"):
        out["element"] = head + "Die Variable r ist eine Liste, die aus %s, %s besteht.\n" % ("(" + expr + ")", "(" + expr + ")")
    if tname == "Wahrheitswert":
        out["condition"] = head + "Wenn %s, dann:\n\tDie Zahl u ist 1.\n" % expr
    return out

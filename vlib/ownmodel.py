"""Tie between the ownership model of the code generator (lean/DDP/Impl/Own.lean) and src/compiler.

Function bodies of the model's fragment (Texte: literals, variables, concatenation, calls; conditions with Text
equality and short-circuited operands; declarations, assignments, call statements, Wenn/Sonst, Solange, Verlasse /
Fahre fort, Gib zurück) are generated, printed as DDP, compiled by the real kddp at -O 0 to LLVM IR, and the
ownership-relevant runtime calls of every function in that IR (ddp_string_from_constant, ddp_deep_copy_string,
ddp_free_string, ddp_string_string_verkettet, ddp_string_equal, calls of generated functions) are counted and compared
with `callCounts (compileFn body)` of the model (`ddpmodel own`).  The model side also reports the outcome of running
its abstract code on every path of a few branch decisions (a test of what Props/C05.lean proves for all paths)."""
import os
import re
import shutil
import subprocess
import tempfile
from concurrent.futures import ThreadPoolExecutor

from .common import CACHE, NPROC, Rng
from .corr import run_lines

KEYS = ("fromConst", "copy", "free", "concat", "equal", "call")


# ------------------------------------------------------------------ generator (bodies as nested tuples)
class G:
    def __init__(self, rng, nfuncs):
        self.r = rng
        self.nfuncs = nfuncs

    def ex(self, nvars, depth, callee_max):
        r = self.r
        k = r.below(10)
        if depth <= 0 or k < 3:
            return ("V", r.below(nvars)) if r.chance(6, 10) else ("L",)
        if k < 6:
            return ("C", self.ex(nvars, depth - 1, callee_max), self.ex(nvars, depth - 1, callee_max))
        if k < 9 and callee_max > 0:
            return ("F", r.below(callee_max), self.ex(nvars, depth - 1, callee_max))
        return ("L",)

    def cond(self, nvars, depth, cm):
        r = self.r
        k = r.below(10)
        if depth <= 0 or k < 3:
            return ("O",)
        if k < 7:
            return ("Q", self.ex(nvars, 1, cm), self.ex(nvars, 1, cm))
        return ("A", self.cond(nvars, depth - 1, cm), self.cond(nvars, depth - 1, cm))

    def block(self, nvars, depth, in_loop, cm, returns, size=None):
        """a non-empty list of statements; returns (stmts)"""
        r = self.r
        n = size or (1 + r.below(4))
        out = []
        for i in range(n):
            k = r.below(16)
            last = i == n - 1
            if k < 4:
                out.append(("d", self.ex(nvars, 2, cm)))
                nvars += 1
            elif k < 7:
                out.append(("a", r.below(nvars), self.ex(nvars, 2, cm)))
            elif k < 9 and cm > 0:
                out.append(("x", ("F", r.below(cm), self.ex(nvars, 2, cm))))
            elif k < 11 and depth > 0:
                t = self.block(nvars, depth - 1, in_loop, cm, returns)
                e = self.block(nvars, depth - 1, in_loop, cm, returns) if r.chance(5, 10) else []
                out.append(("i", self.cond(nvars, 2, cm), t, e))
            elif k < 13 and depth > 0:
                c = self.cond(nvars, 2, cm)
                # the loop forms share one ownership structure (a body scope that `Verlasse` / `Fahre fort` unwind to);
                # counting and repeating loops have conditions without heap values
                kind = r.below(4) if c == ("O",) else r.below(2)
                out.append(("w", c, self.block(nvars, depth - 1, True, cm, returns), kind))
            elif k < 14 and in_loop and (last or r.chance(3, 10)):
                out.append(("b",) if r.chance(5, 10) else ("c",))
            elif k < 15 and returns and (last or r.chance(2, 10)):
                out.append(("r", self.ex(nvars, 2, cm)))
                break   # nothing after a return in the same block (the front end warns about it, the code generator skips it)
            else:
                out.append(("d", self.ex(nvars, 1, cm)))
                nvars += 1
        return out

    def function(self, index):
        returns = index < self.nfuncs - 1 or self.r.chance(5, 10)
        body = self.block(1, 3, False, index + 1 if returns else index, returns, size=2 + self.r.below(4))
        if returns and (not body or body[-1][0] != "r"):
            body.append(("r", self.ex(1 + sum(1 for s in body if s[0] == "d"), 2, index + 1)))
        return {"returns": returns, "body": body}


# ------------------------------------------------------------------ encodings
def enc_ex(e):
    if e[0] == "L":
        return ["L"]
    if e[0] == "V":
        return ["V", str(e[1])]
    if e[0] == "C":
        return ["C"] + enc_ex(e[1]) + enc_ex(e[2])
    return ["F", str(e[1])] + enc_ex(e[2])


def enc_cond(c):
    if c[0] == "O":
        return ["O"]
    if c[0] == "Q":
        return ["Q"] + enc_ex(c[1]) + enc_ex(c[2])
    return ["A"] + enc_cond(c[1]) + enc_cond(c[2])


def enc_block(b):
    out = ["["]
    for s in b:
        k = s[0]
        if k in ("d", "x", "r"):
            out += [k] + enc_ex(s[1])
        elif k == "a":
            out += ["a", str(s[1])] + enc_ex(s[2])
        elif k == "i":
            out += ["i"] + enc_cond(s[1]) + enc_block(s[2]) + enc_block(s[3])
        elif k == "w":
            out += ["w"] + enc_cond(s[1]) + enc_block(s[2])
        else:
            out += [k]
    return out + ["]"]


def pp_ex(e, vis):
    if e[0] == "L":
        return '"x"'
    if e[0] == "V":
        return vis[e[1]]
    if e[0] == "C":
        return "(%s verkettet mit %s)" % (pp_ex(e[1], vis), pp_ex(e[2], vis))
    a = pp_ex(e[2], vis)
    if not (a.startswith('"') or a.startswith("(") or a in vis):
        a = "(" + a + ")"
    if e[2][0] == "F":
        a = a if a.startswith("(") else "(" + a + ")"
    return "(fn%d %s)" % (e[1], a)


def pp_cond(c, vis):
    if c[0] == "O":
        return "wahr"
    if c[0] == "Q":
        return "%s gleich %s ist" % (pp_ex(c[1], vis), pp_ex(c[2], vis))
    return "(%s) und (%s)" % (pp_cond(c[1], vis), pp_cond(c[2], vis))


def pp_block(b, vis, ind, counter):
    vis = list(vis)
    t = "\t" * ind
    out = []
    for s in b:
        k = s[0]
        if k == "d":
            counter[0] += 1
            name = "v%d" % counter[0]
            out.append("%sDer Text %s ist %s." % (t, name, pp_ex(s[1], vis)))
            vis.insert(0, name)
        elif k == "a":
            out.append("%sSpeichere %s in %s." % (t, pp_ex(s[2], vis), vis[s[1]]))
        elif k == "x":
            e = pp_ex(s[1], vis)
            out.append("%s%s." % (t, e[1:-1]))
        elif k == "i":
            out.append("%sWenn %s, dann:" % (t, pp_cond(s[1], vis)))
            out += pp_block(s[2], vis, ind + 1, counter)
            if s[3]:
                out.append("%sSonst:" % t)
                out += pp_block(s[3], vis, ind + 1, counter)
        elif k == "w":
            kind = s[3] if len(s) > 3 else 0
            if kind == 0:
                out.append("%sSolange %s, mache:" % (t, pp_cond(s[1], vis)))
                out += pp_block(s[2], vis, ind + 1, counter)
            elif kind == 1:
                out.append("%sMache:" % t)
                out += pp_block(s[2], vis, ind + 1, counter)
                out.append("%sSolange %s." % (t, pp_cond(s[1], vis)))
            elif kind == 2:
                counter[0] += 1
                out.append("%sFür jede Zahl z%d von 1 bis 3, mache:" % (t, counter[0]))
                out += pp_block(s[2], vis, ind + 1, counter)
            else:
                out.append("%sWiederhole:" % t)
                out += pp_block(s[2], vis, ind + 1, counter)
                out.append("%s3 Mal." % t)
        elif k == "b":
            out.append("%sVerlasse die Schleife." % t)
        elif k == "c":
            out.append("%sFahre mit der Schleife fort." % t)
        elif k == "r":
            out.append("%sGib %s zurück." % (t, pp_ex(s[1], vis)))
    return out


def pp_program(funcs):
    lines = []
    for i, f in enumerate(funcs):
        ret = "einen Text" if f["returns"] else "nichts"
        lines.append("Die Funktion fn%d mit dem Parameter p vom Typ Text, gibt %s zurück, macht:" % (i, ret))
        lines += pp_block(f["body"], ["p"], 1, [0])
        lines.append("Und kann so benutzt werden:")
        lines.append('\t"fn%d <p>"' % i)
        lines.append("")
    return "\n".join(lines) + "\n"


# ------------------------------------------------------------------ implementation side: count calls in the IR
CALL_RE = re.compile(r"\bcall\b[^@\n]*@([A-Za-z0-9_$.]+)\(")


def ir_counts(ll_text):
    """function name prefix fnN -> counts"""
    out = {}
    cur = None
    for line in ll_text.split("\n"):
        if line.startswith("define "):
            m = re.search(r"@(fn\d+)_mod_", line)
            cur = m.group(1) if m else None
            if cur:
                out[cur] = dict.fromkeys(KEYS, 0)
            continue
        if line.startswith("}"):
            cur = None
            continue
        if cur is None:
            continue
        m = CALL_RE.search(line)
        if not m:
            continue
        callee = m.group(1)
        c = out[cur]
        if callee == "ddp_string_from_constant":
            c["fromConst"] += 1
        elif callee == "ddp_deep_copy_string":
            c["copy"] += 1
        elif callee == "ddp_free_string":
            c["free"] += 1
        elif callee == "ddp_string_string_verkettet":
            c["concat"] += 1
        elif callee == "ddp_string_equal":
            c["equal"] += 1
        elif re.match(r"fn\d+_mod_", callee):
            c["call"] += 1
    return out


def compile_ir(ddp, src, workdir):
    os.makedirs(workdir, exist_ok=True)
    path = os.path.join(workdir, "main.ddp")
    with open(path, "w") as f:
        f.write(src)
    e = dict(os.environ)
    e["DDPPATH"] = ddp
    p = subprocess.run([os.path.join(ddp, "bin", "kddp"), "kompiliere", "main.ddp", "-o", "main.ll", "-O", "0",
                        "--module-linken=false", "--list-defs-linken=false"], cwd=workdir, env=e, capture_output=True, text=True, timeout=120)
    ll = os.path.join(workdir, "main.ll")
    if p.returncode != 0 or not os.path.exists(ll):
        return None, (p.stdout + p.stderr)[-1500:]
    return open(ll).read(), ""


def count_kinds(b, hist):
    for s in b:
        k = s[0] + (str(s[3]) if s[0] == "w" and len(s) > 3 else "")
        hist[k] = hist.get(k, 0) + 1
        if s[0] == "i":
            count_kinds(s[2], hist)
            count_kinds(s[3], hist)
        elif s[0] == "w":
            count_kinds(s[2], hist)


def systematic():
    """every loop form inside every loop form, with a heap local in the outer body and `Verlasse` / `Fahre fort` of the
    outer loop before / after the inner loop, behind a condition or not; early returns out of both"""
    progs = []
    L, V0 = ("L",), ("V", 0)
    for outer in range(4):
        for inner in range(4):
            for jump in ("b", "c", "r"):
                for where in ("before", "after", "after-if", "inner"):
                    j = (jump,) if jump != "r" else ("r", ("C", V0, L))
                    cond_o = ("O",) if outer >= 2 else ("Q", V0, L)
                    cond_i = ("O",) if inner >= 2 else ("Q", V0, L)
                    inner_body = [("d", ("C", V0, L)), ("a", 1, V0)]
                    if where == "inner":
                        inner_body.append(("i", ("O",), [j], []))
                    inner_loop = ("w", cond_i, inner_body, inner)
                    body = [("d", ("C", V0, L))]
                    if where == "before":
                        body += [("i", ("Q", V0, L), [j], []), inner_loop]
                    elif where == "after":
                        body += [inner_loop, j]
                    elif where == "after-if":
                        body += [inner_loop, ("i", ("O",), [j], [("a", 0, L)])]
                    else:
                        body += [inner_loop, ("x", ("F", 0, V0))]
                    fbody = [("d", L), ("w", cond_o, body, outer), ("r", ("C", V0, ("V", 1)))]
                    progs.append([{"returns": True, "body": fbody}])
    return progs


def driver(fs, i):
    """a program that calls function i once (the property's own monitor, the heap ledger, judges the run)"""
    call = 'fn%d "x"' % i
    return pp_program(fs) + ("Der Text ergebnis ist %s.\n" % call if fs[i]["returns"] else call + ".\n")


def stage(res, ddp, model, sd, nprog, depth=5, run_and_judge=None):
    """runs the tie; records violations on res; returns statistics.
    run_and_judge(program text) -> None | description: runs the program under the heap ledger (the monitor of the
    property itself); used to turn a disagreement between model and code generator into a failing input"""
    rng = Rng(sd)
    progs = systematic()
    for _ in range(nprog):
        nf = 1 + rng.below(3)
        g = G(rng, nf)
        progs.append([g.function(i) for i in range(nf)])
    lines = []
    for fs in progs:
        for f in fs:
            lines.append("own %d %s" % (depth, " ".join(enc_block(f["body"]))))
    answers = run_lines(model, lines)
    work = tempfile.mkdtemp(prefix="own", dir=os.path.join(CACHE, "work") if os.path.isdir(os.path.join(CACHE, "work")) else None)
    try:
        with ThreadPoolExecutor(NPROC) as ex:
            irs = list(ex.map(lambda ip: compile_ir(ddp, pp_program(ip[1]), os.path.join(work, "p%d" % ip[0])), enumerate(progs)))
    finally:
        shutil.rmtree(work, ignore_errors=True)
    st = {"programs": len(progs), "systematic_programs": len(systematic()), "functions": 0, "agree": 0, "rejected-by-kddp": 0, "paths_run": 0, "stmt_kinds": {}}
    ai = 0
    for fs, (ll, err) in zip(progs, irs):
        src = pp_program(fs)
        mans = answers[ai:ai + len(fs)]
        ai += len(fs)
        if ll is None:
            st["rejected-by-kddp"] += 1
            if st["rejected-by-kddp"] <= 3:
                res.violation("own-model:generator:%d" % (hash(src) % 10 ** 8), "kddp does not compile a program of the ownership fragment (generator or front end)",
                              {"program": src, "kddp": err}, has_input=True)
            continue
        counts = ir_counts(ll)
        for i, (f, a) in enumerate(zip(fs, mans)):
            res.evaluations += 1
            st["functions"] += 1
            kv = dict(x.split("=") for x in a.split() if "=" in x)
            count_kinds(f["body"], st["stmt_kinds"])
            if kv.get("wf") != "1":
                res.violation("own-model:ill-scoped:%d" % (hash(a) % 10 ** 8), "the generator produced a body the model calls ill-scoped", {"program": src, "model": a}, has_input=False)
                continue
            want = {k: int(kv[k]) for k in KEYS}
            got = counts.get("fn%d" % i)
            npaths = sum(int(kv[k]) for k in ("err", "normal", "brk", "cont", "ret-nothing", "ret-value", "ret-leak", "timeout"))
            st["paths_run"] += npaths
            bad = int(kv["err"]) + int(kv["ret-leak"]) + int(kv["brk"]) + int(kv["cont"]) + int(kv["normal"])
            if bad:
                res.violation("own-model:unbalanced:%d" % (hash(a) % 10 ** 8),
                              "the ownership model itself releases a value twice, or not at all, on some path of this body (theorem Props/C05 fn_balanced would be false)",
                              {"program": src, "function": "fn%d" % i, "model": a, "body": " ".join(enc_block(f["body"]))}, has_input=True)
            if got != want:
                st["disagree"] = st.get("disagree", 0) + 1
                why = None
                if run_and_judge is not None and st["disagree"] <= 6:
                    why = run_and_judge(driver(fs, i))
                fp = "own-model:calls:%s" % "/".join(k for k in KEYS if not got or got[k] != want[k])
                if why:
                    res.violation(fp + ":heap", "a function for which the code generator emits other releases than the model of its bookkeeping "
                                  "breaks the heap contract when it runs: %s (model %s, LLVM IR %s)" % (why, want, got),
                                  {"program": driver(fs, i), "function": "fn%d" % i, "model": want, "implementation": got,
                                   "body": " ".join(enc_block(f["body"])), "monitor": "heap ledger (ddp_reallocate contract), kddp -O 0"}, has_input=True)
                else:
                    res.violation(fp, "the code generator emits other ownership-relevant calls for this function than the model of its bookkeeping "
                                  "(DDP.Own.compileFn): model %s, LLVM IR %s; the theorem Props/C05 fn_balanced no longer speaks about this code generator" % (want, got),
                                  {"program": src, "function": "fn%d" % i, "model": want, "implementation": got, "body": " ".join(enc_block(f["body"])),
                                   "correspondence": "callCounts (DDP.Own.compileFn body) vs calls in the IR of kddp -O 0",
                                   "theorem": "DDP.Own.fn_balanced (tie broken)"}, has_input=False)
            else:
                st["agree"] += 1
                res.nontrivial("own:%s" % "-".join(str(want[k]) for k in KEYS))
    return st

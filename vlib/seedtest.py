"""Applies a seeded change (seeded/<name>/patch.diff) to /repo, runs checks, undoes it, and records
which checks reported a violation in seeded/<name>/result.json.  Evidence and replay files written
during the experiment are put back afterwards (evidence must come from the unchanged tree).

usage: python3 -m vlib.seedtest <name> [--tier quick|thorough] [check ids… (default: the seeded property)]"""
import json
import os
import shutil
import subprocess
import sys
import tempfile

from .common import VERIF, REPO


def main(argv):
    name = argv[1]
    tier = "quick"
    ids = []
    it = iter(argv[2:])
    for a in it:
        if a == "--tier":
            tier = next(it)
        else:
            ids.append(a)
    d = os.path.join(VERIF, "seeded", name)
    meta = json.load(open(os.path.join(d, "meta.json")))
    ids = ids or [meta["property"]]
    patch = os.path.join(d, "patch.diff")
    if subprocess.run(["git", "-C", REPO, "status", "--porcelain"], capture_output=True, text=True).stdout.strip():
        print("refusing: /repo has uncommitted changes")
        return 2
    keep = tempfile.mkdtemp(prefix="seedkeep")
    for sub in ("evidence", "replays"):
        if os.path.isdir(os.path.join(VERIF, sub)):
            shutil.copytree(os.path.join(VERIF, sub), os.path.join(keep, sub))
    result = {"seed": name, "property": meta["property"], "tier": tier, "checks": {}}
    p = subprocess.run(["git", "-C", REPO, "apply", patch], capture_output=True, text=True)
    if p.returncode != 0:
        print("patch does not apply:", p.stderr[-500:])
        shutil.rmtree(keep)
        return 2
    try:
        for cid in ids:
            r = subprocess.run([os.path.join(VERIF, "check"), cid, "--tier", tier], capture_output=True, text=True, cwd=VERIF)
            lines = [l for l in r.stdout.split("\n") if l.startswith(("VIOLATION", "OK", "KNOWN-FINDING"))]
            viol = [l for l in lines if l.startswith("VIOLATION")]
            descr = []
            for l in viol[:3]:
                path = l.split("replay=")[1].split()[0]
                try:
                    descr.append(json.load(open(path)).get("description", "")[:300])
                except Exception:
                    pass
            result["checks"][cid] = {"exit": r.returncode, "violations": len(viol), "detected": r.returncode != 0 and bool(viol),
                                     "no_failing_input": [("no-failing-input-found" in l) for l in viol], "descriptions": descr}
            print(cid, "exit", r.returncode, "violations", len(viol))
            for x in descr:
                print("   ", x[:200])
    finally:
        subprocess.run(["git", "-C", REPO, "checkout", "--", "."], capture_output=True)
        subprocess.run(["git", "-C", REPO, "clean", "-fdq"], capture_output=True)
        for sub in ("evidence", "replays"):
            shutil.rmtree(os.path.join(VERIF, sub), ignore_errors=True)
            if os.path.isdir(os.path.join(keep, sub)):
                shutil.copytree(os.path.join(keep, sub), os.path.join(VERIF, sub))
        shutil.rmtree(keep, ignore_errors=True)
    json.dump(result, open(os.path.join(d, "result.json"), "w"), indent=1, ensure_ascii=False)
    return 0


if __name__ == "__main__":
    sys.exit(main(sys.argv))

"""./check setup — build the framework from files on disk only (offline)."""
import os
import sys

from . import corr, leanproj, pipeline
from .common import LEAN, run, log, lock


def main():
    log("[setup] translator + generated Lean files")
    ok, msg = leanproj.regenerate()
    if not ok:
        log(msg)
        return 1
    log("[setup] lake build (library, property theorems, model driver)")
    with lock("lean"):
        p = run(["lake", "build", "DDP", "Props", "ddpmodel"], cwd=LEAN, timeout=7200)
    if p.returncode != 0:
        log((p.stdout + p.stderr)[-6000:])
        return 1
    log("[setup] go harness")
    corr.build_harness()
    log("[setup] kddp + runtime + stdlib install tree")
    pipeline.build()
    log("[setup] done")
    return 0

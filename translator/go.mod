module veriftranslator

go 1.24.0

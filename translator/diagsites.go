package main

// T-gen for C07: every place that builds a diagnostic value by hand (`ddperror.Error{...}` instead of ddperror.New):
// which fields the literal sets. A diagnostic without a Level is printed like an error but does not count as one.

import (
	"fmt"
	"go/ast"
	"os"
	"path/filepath"
	"sort"
	"strings"
)

func init() {
	register("DiagSites", func() (string, error) {
		var rows []string
		root := filepath.Join(repo, "src")
		err := filepath.Walk(root, func(path string, info os.FileInfo, err error) error {
			if err != nil {
				return err
			}
			if info.IsDir() {
				if info.Name() == "llvm" || info.Name() == "testdata" {
					return filepath.SkipDir
				}
				return nil
			}
			if !strings.HasSuffix(path, ".go") || strings.HasSuffix(path, "_test.go") {
				return nil
			}
			rel, _ := filepath.Rel(repo, path)
			f, err := parseFile(rel)
			if err != nil {
				return err
			}
			inDdperror := f.Name.Name == "ddperror"
			for _, d := range f.Decls {
				fd, ok := d.(*ast.FuncDecl)
				if !ok || fd.Body == nil {
					continue
				}
				// payloads of ast.BadDecl / BadStmt / BadExpr nodes are never delivered by themselves
				payload := map[ast.Node]bool{}
				ast.Inspect(fd.Body, func(n ast.Node) bool {
					if cl, ok := n.(*ast.CompositeLit); ok && cl.Type != nil && strings.HasPrefix(exprText(cl.Type), "ast.Bad") {
						for _, e := range cl.Elts {
							if kv, ok := e.(*ast.KeyValueExpr); ok && exprText(kv.Key) == "Err" {
								payload[kv.Value] = true
							}
						}
					}
					return true
				})
				ast.Inspect(fd.Body, func(n ast.Node) bool {
					cl, ok := n.(*ast.CompositeLit)
					if !ok || cl.Type == nil {
						return true
					}
					t := exprText(cl.Type)
					if !(t == "ddperror.Error" || (inDdperror && t == "Error")) {
						return true
					}
					var keys []string
					for _, e := range cl.Elts {
						if kv, ok := e.(*ast.KeyValueExpr); ok {
							keys = append(keys, exprText(kv.Key))
						} else {
							keys = append(keys, "_positional")
						}
					}
					sort.Strings(keys)
					rows = append(rows, fmt.Sprintf("  ⟨%s, %s, %s, %v⟩", leanStr(filepath.ToSlash(rel)), leanStr(fd.Name.Name), leanStrList(keys), payload[n]))
					return true
				})
			}
			return nil
		})
		if err != nil {
			return "", err
		}
		sort.Strings(rows)
		var b strings.Builder
		b.WriteString("namespace DDP.Generated.DiagSites\n\n")
		b.WriteString("/-- a `ddperror.Error{…}` composite literal: file, enclosing function, the fields it sets -/\n")
		b.WriteString("structure Site where\n  file : String\n  func : String\n  fields : List String\n  badNodePayload : Bool   -- the value of the `Err` field of an ast.Bad… node (kept in the tree, not delivered)\n  deriving DecidableEq, Repr\n\n")
		b.WriteString("def errorLiterals : List Site := [\n" + strings.Join(rows, ",\n") + "]\n")
		b.WriteString("\nend DDP.Generated.DiagSites\n")
		return b.String(), nil
	})
}

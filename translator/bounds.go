package main

import (
	"fmt"
	"go/ast"
	"go/token"
	"go/types"
	"strings"
)

func init() { register("BoundsFacts", genBounds) }

// prints an operand of an ICmp in a normal form: newInt(K) -> "K", zero -> "0", idents as is
func opName(e ast.Expr) string {
	switch v := e.(type) {
	case *ast.Ident:
		if v.Name == "zero" {
			return "0"
		}
		return v.Name
	case *ast.CallExpr:
		if id, ok := v.Fun.(*ast.Ident); ok && id.Name == "newInt" && len(v.Args) == 1 {
			return types.ExprString(v.Args[0])
		}
	}
	return types.ExprString(e)
}

type icmp struct{ pred, lhs, rhs string }

// c.cbb.NewICmp(enum.IPredXXX, a, b)
func asICmp(e ast.Expr) (icmp, bool) {
	c, ok := e.(*ast.CallExpr)
	if !ok || len(c.Args) != 3 {
		return icmp{}, false
	}
	sel, ok := c.Fun.(*ast.SelectorExpr)
	if !ok || sel.Sel.Name != "NewICmp" {
		return icmp{}, false
	}
	p, ok := c.Args[0].(*ast.SelectorExpr)
	if !ok || !strings.HasPrefix(p.Sel.Name, "IPred") {
		return icmp{}, false
	}
	return icmp{strings.ToLower(strings.TrimPrefix(p.Sel.Name, "IPred")), opName(c.Args[1]), opName(c.Args[2])}, true
}

func isCall(e ast.Expr, method string) (*ast.CallExpr, bool) {
	c, ok := e.(*ast.CallExpr)
	if !ok {
		return nil, false
	}
	switch f := c.Fun.(type) {
	case *ast.SelectorExpr:
		return c, f.Sel.Name == method
	case *ast.Ident:
		return c, f.Name == method
	}
	return nil, false
}

type idxCheck struct {
	sub    string
	c1, c2 icmp
	fn     string
}

// all index checks of the shape
//   index := …NewSub(<e>, newInt(K)) ; … cond := …NewAnd(NewICmp(..), NewICmp(..))
// inside fn, in source order
func findIdxChecks(fn *ast.FuncDecl) []idxCheck {
	var out []idxCheck
	lastSub := ""
	ast.Inspect(fn.Body, func(n ast.Node) bool {
		as, ok := n.(*ast.AssignStmt)
		if !ok || len(as.Lhs) != 1 || len(as.Rhs) != 1 {
			return true
		}
		id, ok := as.Lhs[0].(*ast.Ident)
		if !ok {
			return true
		}
		if id.Name == "index" {
			if c, ok := isCall(as.Rhs[0], "NewSub"); ok && len(c.Args) == 2 {
				lastSub = opName(c.Args[1])
			}
		}
		if id.Name == "cond" {
			if c, ok := isCall(as.Rhs[0], "NewAnd"); ok && len(c.Args) == 2 {
				a, ok1 := asICmp(c.Args[0])
				b, ok2 := asICmp(c.Args[1])
				if ok1 && ok2 && (a.lhs == "index" || b.lhs == "index") {
					out = append(out, idxCheck{lastSub, a, b, fn.Name.Name})
				}
			}
		}
		return true
	})
	return out
}

func leanOpnd(s string) string {
	isNum := len(s) > 0
	for _, r := range s {
		if r < '0' || r > '9' {
			isNum = false
		}
	}
	if isNum {
		return "(.const " + s + ")"
	}
	return "(.var " + leanStr(s) + ")"
}

func leanICmp(c icmp) string {
	return fmt.Sprintf("⟨.%s, %s, %s⟩", c.pred, leanOpnd(c.lhs), leanOpnd(c.rhs))
}

func genBounds() (string, error) {
	cf, err := parseFile("src/compiler/compiler.go")
	if err != nil {
		return "", err
	}
	var b strings.Builder
	b.WriteString(`namespace DDP.Generated

/-- LLVM integer comparison predicates (enum.IPred*) -/
inductive IPred | eq | ne | ugt | uge | ult | ule | sgt | sge | slt | sle
  deriving DecidableEq, Repr

/-- an operand as the Go source names it: a local value or an integer constant -/
inductive Opnd | var (name : String) | const (n : Nat)
  deriving DecidableEq, Repr

/-- one emitted ` + "`icmp`" + `: predicate and the two operands -/
structure ICmpFact where
  pred : IPred
  lhs : Opnd
  rhs : Opnd
  deriving DecidableEq, Repr

/-- an emitted list index check: ` + "`index := <ddp index> - sub; cond := c1 && c2`" + ` -/
structure IdxCheckFact where
  sub : Opnd
  c1 : ICmpFact
  c2 : ICmpFact
  deriving DecidableEq, Repr

/-- ` + "`createTernary(cond, then, else)`" + ` -/
structure TernaryFact where
  cond : ICmpFact
  thenV : Opnd
  elseV : Opnd
  deriving DecidableEq, Repr

`)
	rv := findFunc(cf, "compiler", "VisitBinaryExpr")
	lv := findFunc(cf, "compiler", "evaluateAssignableOrReference")
	if rv == nil || lv == nil {
		return "", fmt.Errorf("VisitBinaryExpr / evaluateAssignableOrReference not found")
	}
	rchecks := findIdxChecks(rv)
	lchecks := findIdxChecks(lv)
	if len(rchecks) != 1 || len(lchecks) != 1 {
		return "", fmt.Errorf("expected exactly one list index check in VisitBinaryExpr and one in evaluateAssignableOrReference, found %d and %d", len(rchecks), len(lchecks))
	}
	emit := func(name, doc string, c idxCheck) {
		fmt.Fprintf(&b, "/-- %s -/\ndef %s : IdxCheckFact := ⟨%s, %s, %s⟩\n\n", doc, name, leanOpnd(c.sub), leanICmp(c.c1), leanICmp(c.c2))
	}
	emit("rvalueIndexCheck", "`l an der Stelle i` as a value (compiler.VisitBinaryExpr, BIN_INDEX)", rchecks[0])
	emit("lvalueIndexCheck", "list element as assignment target / Referenz argument (compiler.evaluateAssignableOrReference)", lchecks[0])

	// ---- list slices (list_types.go: createListSlice)
	lf, err := parseFile("src/compiler/list_types.go")
	if err != nil {
		return "", err
	}
	sl := findFunc(lf, "compiler", "createListSlice")
	if sl == nil {
		return "", fmt.Errorf("createListSlice not found")
	}
	var empty, crossed *icmp
	type tern struct {
		c    icmp
		t, f string
	}
	var clamp []tern
	var clampArgs [][]string
	var subs []string
	newLen := ""
	ast.Inspect(sl.Body, func(n ast.Node) bool {
		switch s := n.(type) {
		case *ast.AssignStmt:
			if len(s.Lhs) == 1 && len(s.Rhs) == 1 {
				name := types.ExprString(s.Lhs[0])
				if ic, ok := asICmp(s.Rhs[0]); ok {
					c := ic
					switch name {
					case "list_empty":
						empty = &c
					case "i2_less_i1":
						crossed = &c
					}
				}
				if c, ok := isCall(s.Rhs[0], "clamp"); ok && s.Tok == token.ASSIGN && len(c.Args) == 3 {
					clampArgs = append(clampArgs, []string{name, opName(c.Args[0]), opName(c.Args[1]), opName(c.Args[2])})
				}
				if c, ok := isCall(s.Rhs[0], "NewSub"); ok && s.Tok == token.ASSIGN && (name == "index1" || name == "index2") && len(c.Args) == 2 {
					subs = append(subs, name+":"+opName(c.Args[0])+":"+opName(c.Args[1]))
				}
				if name == "new_len" {
					newLen = normArith(s.Rhs[0])
				}
			}
		case *ast.FuncLit:
			// the clamp closure: two createTernary(NewICmp(...), …)
			return true
		case *ast.CallExpr:
			if c, ok := isCall(s, "createTernary"); ok && len(c.Args) == 3 {
				if ic, ok := asICmp(c.Args[0]); ok {
					t := retOf(c.Args[1])
					f := retOf(c.Args[2])
					clamp = append(clamp, tern{ic, t, f})
				}
			}
		}
		return true
	})
	if empty == nil || crossed == nil || len(clamp) != 2 || len(clampArgs) != 2 || len(subs) != 2 || newLen == "" {
		return "", fmt.Errorf("createListSlice: unexpected shape (empty=%v crossed=%v clamp=%d clampArgs=%d subs=%d newLen=%q)", empty != nil, crossed != nil, len(clamp), len(clampArgs), len(subs), newLen)
	}
	b.WriteString(`/-- facts of the generated ` + "`ddp_x_slice`" + ` (list_types.createListSlice) -/
structure SliceFacts where
  emptyTest : ICmpFact          -- early return
  clampLow : TernaryFact
  clampHigh : TernaryFact
  clampCalls : List (String × Opnd × Opnd × Opnd)   -- (target, value, min, max)
  crossed : ICmpFact            -- Laufzeitfehler
  subs : List (String × Opnd × Opnd)   -- (target, value, constant)
  newLen : String
  deriving DecidableEq, Repr

`)
	leanTern := func(t tern) string {
		return fmt.Sprintf("⟨%s, %s, %s⟩", leanICmp(t.c), leanOpnd(t.t), leanOpnd(t.f))
	}
	fmt.Fprintf(&b, "def listSliceFacts : SliceFacts :=\n  { emptyTest := %s\n    clampLow := %s\n    clampHigh := %s\n    clampCalls := [", leanICmp(*empty), leanTern(clamp[0]), leanTern(clamp[1]))
	for i, ca := range clampArgs {
		if i > 0 {
			b.WriteString(", ")
		}
		fmt.Fprintf(&b, "(%s, %s, %s, %s)", leanStr(ca[0]), leanOpnd(ca[1]), leanOpnd(ca[2]), leanOpnd(ca[3]))
	}
	subL := func(x string) string {
		f := strings.Split(x, ":")
		return fmt.Sprintf("(%s, %s, %s)", leanStr(f[0]), leanOpnd(f[1]), leanOpnd(f[2]))
	}
	fmt.Fprintf(&b, "]\n    crossed := %s\n    subs := [%s, %s]\n    newLen := %s }\n\n", leanICmp(*crossed), subL(subs[0]), subL(subs[1]), leanStr(newLen))
	b.WriteString("end DDP.Generated\n")
	return b.String(), nil
}

// func() value.Value { return X }  ->  "X"
func retOf(e ast.Expr) string {
	fl, ok := e.(*ast.FuncLit)
	if !ok || len(fl.Body.List) != 1 {
		return "?"
	}
	rs, ok := fl.Body.List[0].(*ast.ReturnStmt)
	if !ok || len(rs.Results) != 1 {
		return "?"
	}
	return opName(rs.Results[0])
}

// c.cbb.NewAdd(c.cbb.NewSub(a, b), newInt(1)) -> "add(sub(a,b),1)"
func normArith(e ast.Expr) string {
	if c, ok := e.(*ast.CallExpr); ok {
		if sel, ok := c.Fun.(*ast.SelectorExpr); ok && len(c.Args) == 2 {
			switch sel.Sel.Name {
			case "NewAdd":
				return "add(" + normArith(c.Args[0]) + "," + normArith(c.Args[1]) + ")"
			case "NewSub":
				return "sub(" + normArith(c.Args[0]) + "," + normArith(c.Args[1]) + ")"
			}
		}
	}
	return opName(e)
}

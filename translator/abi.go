package main

// T-gen for C18: the value representation as the code generator builds it (types.NewStruct calls, field index
// constants, primitive IR types, the by-value / by-pointer decision of toIrParamType) and as the runtime header
// publishes it (typedefs and structs of lib/runtime/include/DDP/ddptypes.h, DDP_* constants).

import (
	"bytes"
	"fmt"
	"go/ast"
	"go/printer"
	"go/token"
	"regexp"
	"sort"
	"strconv"
	"strings"
)

func exprText(e ast.Expr) string {
	var b bytes.Buffer
	printer.Fprint(&b, fset, e)
	return strings.Join(strings.Fields(b.String()), " ")
}

// normalises the Go expression of a struct field type to a small vocabulary
func irFieldClass(s string) string {
	switch {
	case s == "i8ptr":
		return "ptr"
	case s == "ddpint" || s == "i64":
		return "i64"
	case s == "any_value_type":
		return "bytes16"
	case s == "list.elementType.PtrType()":
		return "ptr"
	case strings.HasPrefix(s, "ptr(types.NewFunc("):
		return "ptr"
	case strings.HasSuffix(s, ".IrType()"): // field of a Kombination
		return "field"
	}
	return "?" + s
}

// finds `<x>.NewTypeDef(<name>, types.NewStruct(args...))` inside a function and returns the args
func newStructArgs(fd *ast.FuncDecl, wantName string) ([]string, bool) {
	var out []string
	found := false
	ast.Inspect(fd, func(n ast.Node) bool {
		call, ok := n.(*ast.CallExpr)
		if !ok || found {
			return true
		}
		sel, ok := call.Fun.(*ast.SelectorExpr)
		if !ok || sel.Sel.Name != "NewTypeDef" || len(call.Args) != 2 {
			return true
		}
		if exprText(call.Args[0]) != wantName {
			return true
		}
		inner, ok := call.Args[1].(*ast.CallExpr)
		if !ok || exprText(inner.Fun) != "types.NewStruct" {
			return true
		}
		for _, a := range inner.Args {
			out = append(out, irFieldClass(exprText(a)))
		}
		found = true
		return false
	})
	return out, found
}

func intConsts(f *ast.File, prefix string) map[string]int {
	m := map[string]int{}
	for _, d := range f.Decls {
		gd, ok := d.(*ast.GenDecl)
		if !ok || gd.Tok != token.CONST {
			continue
		}
		for _, s := range gd.Specs {
			vs := s.(*ast.ValueSpec)
			for i, n := range vs.Names {
				if strings.HasPrefix(n.Name, prefix) && i < len(vs.Values) {
					if bl, ok := vs.Values[i].(*ast.BasicLit); ok {
						if v, err := strconv.Atoi(bl.Value); err == nil {
							m[n.Name] = v
						}
					}
				}
			}
		}
	}
	return m
}

func leanStrList(xs []string) string {
	q := make([]string, len(xs))
	for i, x := range xs {
		q[i] = leanStr(x)
	}
	return "[" + strings.Join(q, ", ") + "]"
}

type cField struct {
	typ   string
	isPtr bool
	name  string
}

// top-level `typedef struct { ... } name;` of a header (nested unions are flattened into one field "union")
func cStructs(src string) (names []string, fields map[string][]cField) {
	fields = map[string][]cField{}
	noCom := regexp.MustCompile(`(?s)/\*.*?\*/`).ReplaceAllString(src, "")
	noCom = regexp.MustCompile(`//[^\n]*`).ReplaceAllString(noCom, "")
	i := 0
	for {
		k := strings.Index(noCom[i:], "typedef struct")
		if k < 0 {
			break
		}
		k += i
		open := strings.Index(noCom[k:], "{")
		if open < 0 {
			break
		}
		open += k
		depth, j := 0, open
		for ; j < len(noCom); j++ {
			if noCom[j] == '{' {
				depth++
			} else if noCom[j] == '}' {
				depth--
				if depth == 0 {
					break
				}
			}
		}
		semi := strings.Index(noCom[j:], ";") + j
		name := strings.TrimSpace(noCom[j+1 : semi])
		body := noCom[open+1 : j]
		// flatten a nested union { ... };
		body = regexp.MustCompile(`(?s)union\s*\{.*?\}\s*;`).ReplaceAllString(body, "union u;")
		var fs []cField
		for _, decl := range strings.Split(body, ";") {
			decl = strings.Join(strings.Fields(decl), " ")
			if decl == "" {
				continue
			}
			sp := strings.LastIndexAny(decl, " *")
			typ := strings.TrimSpace(decl[:sp+1])
			isPtr := strings.HasSuffix(typ, "*")
			typ = strings.TrimSpace(strings.TrimSuffix(typ, "*"))
			fs = append(fs, cField{typ, isPtr, strings.TrimSpace(decl[sp+1:])})
		}
		names = append(names, name)
		fields[name] = fs
		i = semi
	}
	return
}

func init() {
	register("AbiFacts", func() (string, error) {
		var b strings.Builder
		b.WriteString("namespace DDP.Generated.Abi\n\n")

		// ---- Go side ----
		helper, err := parseFile("src/compiler/helper.go")
		if err != nil {
			return "", err
		}
		prims := map[string]string{}
		for _, d := range helper.Decls {
			gd, ok := d.(*ast.GenDecl)
			if !ok || gd.Tok != token.VAR {
				continue
			}
			for _, s := range gd.Specs {
				vs := s.(*ast.ValueSpec)
				for i, n := range vs.Names {
					if i < len(vs.Values) {
						prims[n.Name] = exprText(vs.Values[i])
					}
				}
			}
		}
		resolve := func(n string) string {
			for k := 0; k < 4; k++ {
				v, ok := prims[n]
				if !ok {
					break
				}
				n = v
			}
			return n
		}
		var goPrims []string
		for _, n := range []string{"ddpint", "ddpfloat", "ddpbyte", "ddpbool", "ddpchar"} {
			v := resolve(n)
			if !strings.HasPrefix(v, "types.") {
				return "", fmt.Errorf("helper.go: %s does not resolve to an llir type (%s)", n, v)
			}
			goPrims = append(goPrims, fmt.Sprintf("(%s, %s)", leanStr(n), leanStr(strings.TrimPrefix(v, "types."))))
		}
		b.WriteString("/-- the IR type the code generator uses for each primitive (src/compiler/helper.go) -/\n")
		b.WriteString("def goPrims : List (String × String) := [" + strings.Join(goPrims, ", ") + "]\n\n")

		type sdef struct{ file, fn, recv, tdName, lean string }
		var goStructs []string
		for _, s := range []sdef{
			{"src/compiler/ir_string_type.go", "defineStringType", "compiler", `"ddpstring"`, "ddpstring"},
			{"src/compiler/list_types.go", "createListType", "compiler", "name", "list"},
			{"src/compiler/ir_generic_list_type.go", "createGenericListType", "compiler", `"ddpgenericlist"`, "ddpgenericlist"},
			{"src/compiler/ir_any_type.go", "defineAnyType", "compiler", `"ddpany"`, "ddpany"},
			{"src/compiler/ir_string_type.go", "defineStringType", "compiler", `ddpstring.Name() + "_vtable_type"`, "vtable"},
		} {
			f, err := parseFile(s.file)
			if err != nil {
				return "", err
			}
			fd := findFunc(f, s.recv, s.fn)
			if fd == nil {
				return "", fmt.Errorf("%s: func %s not found", s.file, s.fn)
			}
			args, ok := newStructArgs(fd, s.tdName)
			if !ok {
				return "", fmt.Errorf("%s: %s has no NewTypeDef(%s, types.NewStruct(...))", s.file, s.fn, s.tdName)
			}
			goStructs = append(goStructs, fmt.Sprintf("(%s, %s)", leanStr(s.lean), leanStrList(args)))
		}
		b.WriteString("/-- field classes of the IR struct types, in order (types.NewStruct calls) -/\n")
		b.WriteString("def goStructs : List (String × List String) := [" + strings.Join(goStructs, ",\n  ") + "]\n\n")

		idx := map[string]int{}
		for _, fp := range [][2]string{{"src/compiler/ir_string_type.go", "string_"}, {"src/compiler/list_types.go", "list_"}, {"src/compiler/ir_any_type.go", "any_"}} {
			f, err := parseFile(fp[0])
			if err != nil {
				return "", err
			}
			for k, v := range intConsts(f, fp[1]) {
				if strings.HasSuffix(k, "_index") {
					idx[k] = v
				}
			}
		}
		var keys []string
		for k := range idx {
			keys = append(keys, k)
		}
		sort.Strings(keys)
		var idxs []string
		for _, k := range keys {
			idxs = append(idxs, fmt.Sprintf("(%s, %d)", leanStr(k), idx[k]))
		}
		b.WriteString("/-- the field index constants the code generator reads and writes struct fields with -/\n")
		b.WriteString("def goFieldIndex : List (String × Nat) := [" + strings.Join(idxs, ", ") + "]\n\n")

		// toIrParamType: `if <cond> { return irType.IrType() }; return irType.PtrType()`
		fd := findFunc(helper, "compiler", "toIrParamType")
		if fd == nil {
			return "", fmt.Errorf("helper.go: toIrParamType not found")
		}
		var cond, thenRet, elseRet string
		for _, st := range fd.Body.List {
			switch s := st.(type) {
			case *ast.IfStmt:
				cond = exprText(s.Cond)
				if len(s.Body.List) == 1 {
					if r, ok := s.Body.List[0].(*ast.ReturnStmt); ok && len(r.Results) == 1 {
						thenRet = exprText(r.Results[0])
					}
				}
			case *ast.ReturnStmt:
				if len(s.Results) == 1 {
					elseRet = exprText(s.Results[0])
				}
			}
		}
		if cond == "" || thenRet == "" || elseRet == "" {
			return "", fmt.Errorf("helper.go: toIrParamType no longer has the shape `if c { return a }; return b`")
		}
		// the condition as a truth table over (isReference, isPrimitive)
		tt, err := truthTable2(fd, "ty.IsReference", "irType.IsPrimitive()")
		if err != nil {
			return "", err
		}
		b.WriteString("/-- compiler.toIrParamType: the returned IR type for (isReference, isPrimitive) = (f,f) (f,t) (t,f) (t,t); \"value\" = irType.IrType(), \"pointer\" = irType.PtrType() -/\n")
		cls := func(r string) string {
			switch r {
			case "irType.IrType()":
				return "value"
			case "irType.PtrType()":
				return "pointer"
			}
			return "?" + r
		}
		var rows []string
		for _, t := range tt {
			if t {
				rows = append(rows, leanStr(cls(thenRet)))
			} else {
				rows = append(rows, leanStr(cls(elseRet)))
			}
		}
		b.WriteString("def goParamPassing : List String := [" + strings.Join(rows, ", ") + "]\n\n")

		// ---- C side ----
		hdr, err := readFile("lib/runtime/include/DDP/ddptypes.h")
		if err != nil {
			return "", err
		}
		var cPrims []string
		for _, n := range []string{"ddpint", "ddpfloat", "ddpbyte", "ddpbool", "ddpchar"} {
			m := regexp.MustCompile(`(?m)^typedef\s+(\w+)\s+` + n + `\s*;`).FindStringSubmatch(hdr)
			if m == nil {
				return "", fmt.Errorf("ddptypes.h: no typedef for %s", n)
			}
			cPrims = append(cPrims, fmt.Sprintf("(%s, %s)", leanStr(n), leanStr(m[1])))
		}
		b.WriteString("/-- the C type each primitive is published as (ddptypes.h) -/\n")
		b.WriteString("def cPrims : List (String × String) := [" + strings.Join(cPrims, ", ") + "]\n\n")
		names, fields := cStructs(hdr)
		var cs []string
		for _, n := range names {
			var fs []string
			for _, f := range fields[n] {
				fs = append(fs, fmt.Sprintf("(%s, %v, %s)", leanStr(f.typ), f.isPtr, leanStr(f.name)))
			}
			cs = append(cs, fmt.Sprintf("(%s, [%s])", leanStr(n), strings.Join(fs, ", ")))
		}
		b.WriteString("/-- the structs of ddptypes.h: (C base type, is a pointer, field name) in declaration order -/\n")
		b.WriteString("def cStructs : List (String × List (String × Bool × String)) := [" + strings.Join(cs, ",\n  ") + "]\n\n")
		var refs []string
		for _, m := range regexp.MustCompile(`(?m)^typedef\s+(\w+)\s*\*\s*(\w+ref)\s*;`).FindAllStringSubmatch(hdr, -1) {
			refs = append(refs, fmt.Sprintf("(%s, %s)", leanStr(m[2]), leanStr(m[1])))
		}
		b.WriteString("/-- the `…ref` typedefs (what a Referenz parameter is for C): (name, pointee) -/\n")
		b.WriteString("def cRefs : List (String × String) := [" + strings.Join(refs, ", ") + "]\n\n")
		var asserts []string
		for _, m := range regexp.MustCompile(`static_assert\(sizeof\((\w+)\)\s*==\s*(\d+)`).FindAllStringSubmatch(hdr, -1) {
			asserts = append(asserts, fmt.Sprintf("(%s, %s)", leanStr(m[1]), m[2]))
		}
		b.WriteString("def cSizeAsserts : List (String × Nat) := [" + strings.Join(asserts, ", ") + "]\n\n")
		m := regexp.MustCompile(`#define\s+DDP_SMALL_ANY_BUFF_SIZE\s+(\d+)`).FindStringSubmatch(hdr)
		if m == nil {
			return "", fmt.Errorf("ddptypes.h: DDP_SMALL_ANY_BUFF_SIZE not found")
		}
		b.WriteString("def cSmallAnyBuffSize : Nat := " + m[1] + "\n")
		m = regexp.MustCompile(`#define\s+DDP_BASE_CAPACITY\s+\((\d+)\)`).FindStringSubmatch(hdr)
		if m == nil {
			return "", fmt.Errorf("ddptypes.h: DDP_BASE_CAPACITY not found")
		}
		b.WriteString("def cBaseCapacity : Nat := " + m[1] + "\n")
		m = regexp.MustCompile(`#define\s+DDP_GROWTH_FACTOR\s+\((\d+)\.(\d)\)`).FindStringSubmatch(hdr)
		if m == nil {
			return "", fmt.Errorf("ddptypes.h: DDP_GROWTH_FACTOR not found")
		}
		b.WriteString("/-- DDP_GROWTH_FACTOR in tenths -/\ndef cGrowthFactorTenths : Nat := " + m[1] + m[2] + "\n")
		var fmts []string
		for _, m := range regexp.MustCompile(`#define\s+(DDP_\w+_FMT)\s+"([^"]*)"`).FindAllStringSubmatch(hdr, -1) {
			fmts = append(fmts, fmt.Sprintf("(%s, %s)", leanStr(m[1]), leanStr(m[2])))
		}
		b.WriteString("def cFormats : List (String × String) := [" + strings.Join(fmts, ", ") + "]\n")
		b.WriteString("\nend DDP.Generated.Abi\n")
		return b.String(), nil
	})
}

// evaluates the condition of the single `if` of fd over two named atoms; result order (a,b) = (f,f) (f,t) (t,f) (t,t)
func truthTable2(fd *ast.FuncDecl, atomA, atomB string) ([]bool, error) {
	var cond ast.Expr
	for _, st := range fd.Body.List {
		if s, ok := st.(*ast.IfStmt); ok {
			cond = s.Cond
		}
	}
	if cond == nil {
		return nil, fmt.Errorf("%s: no if statement", fd.Name.Name)
	}
	var eval func(e ast.Expr, a, b bool) (bool, error)
	eval = func(e ast.Expr, a, b bool) (bool, error) {
		switch x := e.(type) {
		case *ast.ParenExpr:
			return eval(x.X, a, b)
		case *ast.UnaryExpr:
			if x.Op == token.NOT {
				v, err := eval(x.X, a, b)
				return !v, err
			}
		case *ast.BinaryExpr:
			l, err := eval(x.X, a, b)
			if err != nil {
				return false, err
			}
			r, err := eval(x.Y, a, b)
			if err != nil {
				return false, err
			}
			switch x.Op {
			case token.LAND:
				return l && r, nil
			case token.LOR:
				return l || r, nil
			}
		}
		switch exprText(e) {
		case atomA:
			return a, nil
		case atomB:
			return b, nil
		}
		return false, fmt.Errorf("%s: condition uses something other than %s / %s: %s", fd.Name.Name, atomA, atomB, exprText(e))
	}
	var out []bool
	for _, a := range []bool{false, true} {
		for _, bb := range []bool{false, true} {
			v, err := eval(cond, a, bb)
			if err != nil {
				return nil, err
			}
			out = append(out, v)
		}
	}
	return out, nil
}

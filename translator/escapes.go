package main

import (
	"fmt"
	"go/ast"
	"go/token"
	"strconv"
	"strings"
)

func init() { register("Escapes", genEscapes) }

func leanChar(r rune) string {
	return fmt.Sprintf("(Char.ofNat %d)", r)
}

func charLit(e ast.Expr) (rune, bool) {
	bl, ok := e.(*ast.BasicLit)
	if !ok || bl.Kind != token.CHAR {
		return 0, false
	}
	s, err := strconv.Unquote(bl.Value)
	if err != nil {
		return 0, false
	}
	rs := []rune(s)
	if len(rs) != 1 {
		return 0, false
	}
	return rs[0], true
}

// finds the first switch statement in fn whose tag prints as tagSrc
func findSwitch(fn *ast.FuncDecl, pred func(ast.Expr) bool) *ast.SwitchStmt {
	var res *ast.SwitchStmt
	ast.Inspect(fn.Body, func(n ast.Node) bool {
		if res != nil {
			return false
		}
		if sw, ok := n.(*ast.SwitchStmt); ok && sw.Tag != nil && pred(sw.Tag) {
			res = sw
			return false
		}
		return true
	})
	return res
}

func isIdent(name string) func(ast.Expr) bool {
	return func(e ast.Expr) bool {
		id, ok := e.(*ast.Ident)
		return ok && id.Name == name
	}
}

// escape table of a parser helper: case 'x': v = 'y'  |  case 'x': (identity)  | default: error
func parserEscapes(fn *ast.FuncDecl, tagVar string) ([][2]rune, error) {
	sw := findSwitch(fn, isIdent(tagVar))
	if sw == nil {
		return nil, fmt.Errorf("%s: switch on %s not found", fn.Name.Name, tagVar)
	}
	var out [][2]rune
	sawDefault := false
	for _, st := range sw.Body.List {
		cc := st.(*ast.CaseClause)
		if cc.List == nil {
			sawDefault = true
			continue
		}
		for _, e := range cc.List {
			r, ok := charLit(e)
			if !ok {
				return nil, fmt.Errorf("%s: case label is not a rune literal", fn.Name.Name)
			}
			img := r
			switch len(cc.Body) {
			case 0:
			case 1:
				as, ok := cc.Body[0].(*ast.AssignStmt)
				if !ok || len(as.Lhs) != 1 || len(as.Rhs) != 1 || !isIdent(tagVar)(as.Lhs[0]) {
					return nil, fmt.Errorf("%s: case body is not `%s = <rune>`", fn.Name.Name, tagVar)
				}
				v, ok := charLit(as.Rhs[0])
				if !ok {
					return nil, fmt.Errorf("%s: assigned value is not a rune literal", fn.Name.Name)
				}
				img = v
			default:
				return nil, fmt.Errorf("%s: case body has %d statements", fn.Name.Name, len(cc.Body))
			}
			out = append(out, [2]rune{r, img})
		}
	}
	if !sawDefault {
		return nil, fmt.Errorf("%s: switch has no default (error) branch", fn.Name.Name)
	}
	return out, nil
}

func genEscapes() (string, error) {
	sf, err := parseFile("src/scanner/scanner.go")
	if err != nil {
		return "", err
	}
	fn := findFunc(sf, "Scanner", "scanEscape")
	if fn == nil {
		return "", fmt.Errorf("scanEscape not found")
	}
	sw := findSwitch(fn, func(e ast.Expr) bool {
		c, ok := e.(*ast.CallExpr)
		if !ok {
			return false
		}
		sel, ok := c.Fun.(*ast.SelectorExpr)
		return ok && sel.Sel.Name == "peekNext"
	})
	if sw == nil {
		return "", fmt.Errorf("scanEscape: switch on s.peekNext() not found")
	}
	var letters []rune
	quote := false
	for _, st := range sw.Body.List {
		cc := st.(*ast.CaseClause)
		if cc.List == nil {
			continue
		}
		// the accepting clause is the one that returns true
		accepts := false
		for _, b := range cc.Body {
			if rs, ok := b.(*ast.ReturnStmt); ok && len(rs.Results) == 1 && isIdent("true")(rs.Results[0]) {
				accepts = true
			}
		}
		if !accepts {
			return "", fmt.Errorf("scanEscape: unexpected non-accepting case clause")
		}
		for _, e := range cc.List {
			if r, ok := charLit(e); ok {
				letters = append(letters, r)
			} else if isIdent("quote")(e) {
				quote = true
			} else {
				return "", fmt.Errorf("scanEscape: unexpected case label")
			}
		}
	}
	pf, err := parseFile("src/parser/expressions.go")
	if err != nil {
		return "", err
	}
	pc := findFunc(pf, "parser", "parseChar")
	ps := findFunc(pf, "parser", "parseString")
	if pc == nil || ps == nil {
		return "", fmt.Errorf("parseChar/parseString not found")
	}
	ce, err := parserEscapes(pc, "r")
	if err != nil {
		return "", err
	}
	se, err := parserEscapes(ps, "seq")
	if err != nil {
		return "", err
	}
	var b strings.Builder
	b.WriteString("namespace DDP.Generated\n\n")
	b.WriteString("/-- escape letters accepted by `scanner.scanEscape` (besides the literal's own quote) -/\ndef scannerEscapeLetters : List Char := [")
	for i, r := range letters {
		if i > 0 {
			b.WriteString(", ")
		}
		b.WriteString(leanChar(r))
	}
	fmt.Fprintf(&b, "]\n\n/-- `scanEscape` also accepts the quote character of the literal being scanned -/\ndef scannerEscapeQuote : Bool := %v\n\n", quote)
	emit := func(name, doc string, t [][2]rune) {
		fmt.Fprintf(&b, "/-- %s -/\ndef %s : List (Char × Char) := [", doc, name)
		for i, e := range t {
			if i > 0 {
				b.WriteString(", ")
			}
			fmt.Fprintf(&b, "(%s, %s)", leanChar(e[0]), leanChar(e[1]))
		}
		b.WriteString("]\n\n")
	}
	emit("parseCharEscapes", "escape letter ↦ value, `parser.parseChar`", ce)
	emit("parseStringEscapes", "escape letter ↦ value, `parser.parseString`", se)
	b.WriteString("end DDP.Generated\n")
	return b.String(), nil
}

package main

// T-gen for C01: the precedence ladder of src/parser/expressions.go. For every rung function: which other rungs it
// calls (in source order), the token types its loop / prefix test matches, the operators it constructs, and the shape
// of the loop (rebinding the result = left associative chain; returning from the body = prefix form).

import (
	"fmt"
	"go/ast"
	"strings"
)

var rungNames = []string{"expression", "ifExpression", "boolXOR", "boolOR", "boolAND", "bitwiseOR", "bitwiseXOR", "bitwiseAND",
	"equality", "comparison", "bitShift", "term", "factor", "unary", "negate", "power", "slicing", "indexing", "field_access",
	"type_cast", "primary"}

func init() {
	register("Ladder", func() (string, error) {
		f, err := parseFile("src/parser/expressions.go")
		if err != nil {
			return "", err
		}
		isRung := map[string]bool{}
		for _, n := range rungNames {
			isRung[n] = true
		}
		isRung["alias"] = true
		isRung["grouping"] = true
		var b strings.Builder
		b.WriteString("namespace DDP.Generated.Ladder\n\n")
		b.WriteString("/-- one `for p.matchAny(..)` / `for p.matchSeq(..)` loop of a rung -/\n")
		b.WriteString("structure Loop where\n  kind : String\n  toks : List String\n  calls : List String   -- rungs called inside the loop body (operands to the right of the operator)\n  rebinds : Bool   -- the body assigns the running result (left associative chain)\n  returns : Bool   -- the body returns (prefix form, no chain)\n  deriving DecidableEq, Repr\n\n")
		b.WriteString("structure Rung where\n  name : String\n  calls : List String   -- other rungs called, in source order (first occurrence)\n  loops : List Loop\n  ops : List String     -- operators constructed (first occurrence order)\n  deriving DecidableEq, Repr\n\n")
		var rungs []string
		for _, name := range rungNames {
			fd := findFunc(f, "parser", name)
			if fd == nil {
				return "", fmt.Errorf("expressions.go: rung %s not found", name)
			}
			var calls, ops []string
			seenC, seenO := map[string]bool{}, map[string]bool{}
			var loops []string
			// name of the running result: first `x := p.<rung>()` or the parameter `lhs`
			ast.Inspect(fd.Body, func(n ast.Node) bool {
				switch x := n.(type) {
				case *ast.CallExpr:
					if sel, ok := x.Fun.(*ast.SelectorExpr); ok {
						if id, ok := sel.X.(*ast.Ident); ok && id.Name == "p" && isRung[sel.Sel.Name] && !seenC[sel.Sel.Name] {
							seenC[sel.Sel.Name] = true
							calls = append(calls, sel.Sel.Name)
						}
					}
				case *ast.SelectorExpr:
					if id, ok := x.X.(*ast.Ident); ok && id.Name == "ast" {
						n := x.Sel.Name
						if (strings.HasPrefix(n, "BIN_") || strings.HasPrefix(n, "TER_") || strings.HasPrefix(n, "UN_") || strings.HasPrefix(n, "TYPE_")) && !seenO[n] {
							seenO[n] = true
							ops = append(ops, n)
						}
					}
				case *ast.ForStmt:
					call, ok := x.Cond.(*ast.CallExpr)
					if !ok {
						return true
					}
					sel, ok := call.Fun.(*ast.SelectorExpr)
					if !ok || (sel.Sel.Name != "matchAny" && sel.Sel.Name != "matchSeq") {
						return true
					}
					var toks []string
					for _, a := range call.Args {
						toks = append(toks, strings.TrimPrefix(exprText(a), "token."))
					}
					rebinds, returns := false, false
					var lcalls []string
					seenL := map[string]bool{}
					ast.Inspect(x.Body, func(m ast.Node) bool {
						if c, ok := m.(*ast.CallExpr); ok {
							if sel, ok := c.Fun.(*ast.SelectorExpr); ok {
								if id, ok := sel.X.(*ast.Ident); ok && id.Name == "p" && isRung[sel.Sel.Name] && !seenL[sel.Sel.Name] {
									seenL[sel.Sel.Name] = true
									lcalls = append(lcalls, sel.Sel.Name)
								}
							}
						}
						return true
					})
					for _, st := range x.Body.List {
						switch s := st.(type) {
						case *ast.AssignStmt:
							if len(s.Lhs) == 1 {
								if id, ok := s.Lhs[0].(*ast.Ident); ok && (id.Name == "expr" || id.Name == "lhs") && s.Tok.String() == "=" {
									rebinds = true
								}
							}
						case *ast.ReturnStmt:
							returns = true
						case *ast.SwitchStmt, *ast.IfStmt:
							ast.Inspect(s, func(m ast.Node) bool {
								if as, ok := m.(*ast.AssignStmt); ok && len(as.Lhs) == 1 && as.Tok.String() == "=" {
									if id, ok := as.Lhs[0].(*ast.Ident); ok && (id.Name == "expr" || id.Name == "lhs") {
										rebinds = true
									}
								}
								return true
							})
						}
					}
					loops = append(loops, fmt.Sprintf("⟨%s, %s, %s, %v, %v⟩", leanStr(sel.Sel.Name), leanStrList(toks), leanStrList(lcalls), rebinds, returns))
				}
				return true
			})
			rungs = append(rungs, fmt.Sprintf("  ⟨%s, %s, [%s], %s⟩", leanStr(name), leanStrList(calls), strings.Join(loops, ", "), leanStrList(ops)))
		}
		b.WriteString("def ladder : List Rung := [\n" + strings.Join(rungs, ",\n") + "]\n")
		b.WriteString("\nend DDP.Generated.Ladder\n")
		return b.String(), nil
	})
}

package main

import (
	"fmt"
	"go/ast"
	"go/token"
	"strconv"
	"strings"
)

func init() { register("Keywords", genKeywords) }

// TokenType constructors in iota order and KeywordMap as an association list.
func genKeywords() (string, error) {
	f, err := parseFile("src/token/token_types.go")
	if err != nil {
		return "", err
	}
	var names []string
	var kw [][2]string
	for _, d := range f.Decls {
		gd, ok := d.(*ast.GenDecl)
		if !ok {
			continue
		}
		if gd.Tok == token.CONST {
			isTok := false
			for i, sp := range gd.Specs {
				vs := sp.(*ast.ValueSpec)
				if i == 0 {
					if id, ok := vs.Type.(*ast.Ident); ok && id.Name == "TokenType" {
						if len(vs.Values) == 1 {
							if v, ok := vs.Values[0].(*ast.Ident); ok && v.Name == "iota" {
								isTok = true
							}
						}
					}
					if !isTok {
						break
					}
				} else if vs.Type != nil || len(vs.Values) != 0 {
					return "", fmt.Errorf("TokenType const block: spec %d is not a plain iota continuation", i)
				}
				for _, n := range vs.Names {
					names = append(names, n.Name)
				}
			}
		}
		if gd.Tok == token.VAR {
			for _, sp := range gd.Specs {
				vs := sp.(*ast.ValueSpec)
				if len(vs.Names) == 1 && vs.Names[0].Name == "KeywordMap" && len(vs.Values) == 1 {
					cl, ok := vs.Values[0].(*ast.CompositeLit)
					if !ok {
						return "", fmt.Errorf("KeywordMap is not a composite literal")
					}
					for _, el := range cl.Elts {
						kv, ok := el.(*ast.KeyValueExpr)
						if !ok {
							return "", fmt.Errorf("KeywordMap element is not key: value")
						}
						k, ok1 := kv.Key.(*ast.BasicLit)
						v, ok2 := kv.Value.(*ast.Ident)
						if !ok1 || !ok2 || k.Kind != token.STRING {
							return "", fmt.Errorf("KeywordMap element has unexpected shape")
						}
						s, err := strconv.Unquote(k.Value)
						if err != nil {
							return "", err
						}
						kw = append(kw, [2]string{s, v.Name})
					}
				}
			}
		}
	}
	if len(names) < 50 || len(kw) < 50 {
		return "", fmt.Errorf("found only %d token types / %d keywords", len(names), len(kw))
	}
	// a duplicate key in a Go map literal is a compile error, so kw keys are unique
	var b strings.Builder
	b.WriteString("namespace DDP.Generated\n\n")
	b.WriteString("/-- `token.TokenType`, constructors in iota order (the order is semantic). -/\ninductive TokenType where\n")
	for _, n := range names {
		fmt.Fprintf(&b, "  | «%s»\n", n)
	}
	b.WriteString("  deriving DecidableEq, Repr, Inhabited\n\n")
	b.WriteString("def TokenType.all : List TokenType := [\n")
	for i, n := range names {
		sep := ","
		if i == len(names)-1 {
			sep = ""
		}
		fmt.Fprintf(&b, "  .«%s»%s\n", n, sep)
	}
	b.WriteString("]\n\n")
	b.WriteString("def TokenType.name : TokenType → String\n")
	for _, n := range names {
		fmt.Fprintf(&b, "  | .«%s» => %s\n", n, leanStr(n))
	}
	b.WriteString("\n/-- `token.KeywordMap` in source order. -/\ndef keywordMap : List (String × TokenType) := [\n")
	for i, e := range kw {
		sep := ","
		if i == len(kw)-1 {
			sep = ""
		}
		fmt.Fprintf(&b, "  (%s, .«%s»)%s\n", leanStr(e[0]), e[1], sep)
	}
	b.WriteString("]\n\nend DDP.Generated\n")
	return b.String(), nil
}

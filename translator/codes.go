package main

import (
	"encoding/json"
	"fmt"
	"go/ast"
	"go/token"
	"os"
	"path/filepath"
	"strconv"
	"strings"
)

func init() { register("Codes", genCodes) }

// ddperror.Code constants (name -> number); also written as Codes.json for the python side
func genCodes() (string, error) {
	f, err := parseFile("src/ddperror/codes.go")
	if err != nil {
		return "", err
	}
	type kv struct {
		k string
		v int
	}
	var all []kv
	for _, d := range f.Decls {
		gd, ok := d.(*ast.GenDecl)
		if !ok || gd.Tok != token.CONST {
			continue
		}
		base := -1
		for i, sp := range gd.Specs {
			vs := sp.(*ast.ValueSpec)
			if i == 0 {
				if id, ok := vs.Type.(*ast.Ident); !ok || id.Name != "Code" || len(vs.Values) != 1 {
					break
				}
				switch v := vs.Values[0].(type) {
				case *ast.Ident:
					if v.Name == "iota" {
						base = 0
					}
				case *ast.BinaryExpr:
					x, ok1 := v.X.(*ast.Ident)
					y, ok2 := v.Y.(*ast.BasicLit)
					if ok1 && ok2 && x.Name == "iota" && v.Op == token.ADD {
						base, _ = strconv.Atoi(y.Value)
					}
				}
				if base < 0 {
					return "", fmt.Errorf("codes.go: unexpected first spec in const block")
				}
			} else if vs.Type != nil || len(vs.Values) != 0 {
				return "", fmt.Errorf("codes.go: spec %d is not a plain iota continuation", i)
			}
			for _, n := range vs.Names {
				all = append(all, kv{n.Name, base + i})
			}
		}
	}
	if len(all) < 30 {
		return "", fmt.Errorf("only %d codes found", len(all))
	}
	m := map[string]int{}
	var b strings.Builder
	b.WriteString("namespace DDP.Generated\n\n/-- `ddperror.Code` constants -/\ndef errorCodes : List (String × Nat) := [\n")
	for i, e := range all {
		m[e.k] = e.v
		sep := ","
		if i == len(all)-1 {
			sep = ""
		}
		fmt.Fprintf(&b, "  (%s, %d)%s\n", leanStr(e.k), e.v, sep)
	}
	b.WriteString("]\n\nend DDP.Generated\n")
	js, _ := json.MarshalIndent(m, "", " ")
	if err := os.WriteFile(filepath.Join(outDir, "Codes.json"), js, 0o644); err != nil {
		return "", err
	}
	return b.String(), nil
}
